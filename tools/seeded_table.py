#!/usr/bin/env python3
"""Prints the markdown table of seeded changes (DESIGN.md 9.6) from seeded/*/meta.json and results.txt"""
import json, os, re, glob
rows = []
for d in sorted(glob.glob('/verif/seeded/*/')):
    m = json.load(open(d + 'meta.json'))
    res = open(d + 'results.txt').read() if os.path.exists(d + 'results.txt') else ''
    caught = sorted(set(re.findall(r'^(C\d\d) VIOLATION', res, re.M)))
    hist = m.get('history', '')
    if isinstance(hist, list): hist = ' '.join(hist)
    missed = 'MISS' in hist or 'MISS' in res
    note = ''
    if 'MISS avoided' in hist:
        mm = re.search(r'(C\d\d) strengthened', hist)
        note = f"miss predicted from the description; {mm.group(1) if mm else 'check'} strengthened before the first run"
    elif missed:
        mm = re.search(r'(C\d\d) strengthened', hist)
        note = f"missed at first; {mm.group(1) if mm else 'check'} strengthened, now caught"
    if re.search(r'round (?:[456789]|1[0123]):', hist) and re.search(r'missed', hist):
        note = f"missed at first; {m['breaks_property']} strengthened, now caught"
    if 'machinery errors' in hist:
        note = "four checks ended as machinery errors at first; the driver now reports escaped subject panics"
    if 'not reported by C11' in hist:
        note = "under run() only the order of `remaining` changes, which C11's statement leaves open; the stepping symptoms are C10's and C02's subject and are reported there"
    m9 = re.search(r'round (?:[89]|1[0123]): (not reported.*)', hist)
    if m9:
        note = m9.group(1)[:230].rstrip() + ('...' if len(m9.group(1)) > 230 else '')
    if 'ended as a machinery error at first' in hist:
        note = "machinery error at first (the failing case did not reproduce alone); the driver now replays the whole worker shard"
    if 'wall caps' in hist:
        note = "several checks ran into their wall caps under this change (C05: machinery error after 1200 s; C12-C14, C17, C18 not run for time)"
    if 'behaviour-preserving' in hist:
        note = "missed at first; C06 strengthened (caught on the tree it was written for); after fix 757ff1b the change no longer breaks the property"
    rows.append((m['id'], m['breaks_property'], ', '.join(caught) if caught else '-', note))
print("| seeded change | written to break | reported by (quick tier) | note |")
print("|---|---|---|---|")
for r in rows:
    print(f"| `{r[0]}` | {r[1]} | {r[2]} | {r[3]} |")
