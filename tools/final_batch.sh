export VERIF_REPO=$VP_RUN_REPO
export FOCUS=1
for n in 'C07-*' C10-peeked-time-rounded-through-f64 C02-bucket-index-through-f64-division C16-queue-admission-charges-header-only; do tools/rerun_all_seeded.sh "$n"; done
for p in C01 C02 C07 C10 C14 C16 C09 C05 C20; do /usr/bin/time -f "$p wall=%es maxrss=%MKB" ./check $p thorough 2>&1 | grep -v "^  features\|^KNOWN" | tail -3; done
