export VERIF_REPO=$VP_RUN_REPO
export FOCUS=1
for p in C17 C03 C11 C05 C08 C09; do /usr/bin/time -f "$p wall=%es maxrss=%MKB" ./check $p thorough 2>&1 | grep -v "^  features\|^KNOWN" | tail -3; done
for n in 'C17-*'; do tools/rerun_all_seeded.sh "$n"; done
