export VERIF_REPO=$VP_RUN_REPO
export FOCUS=1
for n in 'C17-*' 'C12-*'; do tools/rerun_all_seeded.sh "$n"; done
for p in C03 C12 C17 C11; do /usr/bin/time -f "$p wall=%es maxrss=%MKB" ./check $p thorough 2>&1 | grep -v "^  features\|^KNOWN" | tail -3; done
