#!/bin/bash
# tools/intake.sh <worktree-ID> <seeded-name> <breaks-ID> "<needs to manifest>"
# confirm a sub-agent's change in its worktree, store it under seeded/, remove the worktree, run all quick checks
set -u
WT="$1"; NAME="$2"; BR="$3"; NEEDS="$4"
cd /verif
C="$(tools/confirm_seeded.sh /tmp/wt/$WT 2>&1 | tail -3)"
echo "$C" | cut -c1-110
if ! echo "$C" | grep -q "(1) suite with change:.*221 passed, 0 skipped"; then echo "NOT CONFIRMED (suite)"; exit 1; fi
if ! echo "$C" | grep "(2) demo with change" | grep -q "failed"; then echo "NOT CONFIRMED (demo does not fail)"; exit 1; fi
if echo "$C" | grep "(3) demo without change" | grep -q "failed"; then echo "NOT CONFIRMED (demo fails without change)"; exit 1; fi
tools/store_seeded.py "$WT" "$NAME" "$BR" "$NEEDS" later
git -C /repo worktree remove --force /tmp/wt/$WT; git -C /repo worktree prune
tools/run_seeded.sh seeded/$NAME/patch.diff 2>&1 | tee seeded/$NAME/results.txt | grep -v " ok$" | cut -c1-330
echo "--- done $NAME"
