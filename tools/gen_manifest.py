#!/usr/bin/env python3
"""Generates /verif/MANIFEST.json from the table below (kept in one place so that the
manifest is valid after every edit)."""
import json, os, subprocess
ROOT = os.path.dirname(os.path.dirname(os.path.abspath(__file__)))

def hook_commits():
    try:
        out = subprocess.check_output(["git", "-C", "/repo", "log", "--format=%h %s"], text=True)
        return [l.split()[0] for l in out.splitlines() if " verif hooks:" in " " + l]
    except Exception:
        return []

# id -> (category, technique, level text, level note, design ref)
CHECKS = {}
def chk(pid, cat, technique, text, note, ref):
    CHECKS[pid] = dict(cat=cat, technique=technique, text=text, note=note, ref=ref)

exec(open(os.path.join(ROOT, "tools", "checks_table.py")).read())

ALL = [f"C{i:02d}" for i in range(1, 21)]
checks = []
for pid in ALL:
    if pid not in CHECKS:
        continue
    c = CHECKS[pid]
    checks.append({
        "property_id": pid,
        "quick_cmd": f"./check {pid} quick",
        "thorough_cmd": f"./check {pid} thorough",
        "evidence_file": f"/verif/evidence/{pid}.json",
        "replay_cmd_template": f"./check {pid} --replay {{path}}",
        "engine": "vcheck",
        "level_claimed": {"category": c["cat"], "text": c["text"], "design_ref": c["ref"]},
        "level_note": c["note"],
        "technique": c["technique"],
    })
na = [{"property_id": p, "reason": NOT_APPLICABLE.get(p, "check not built yet in this round; planned in DESIGN.md section 4")} for p in ALL if p not in CHECKS]
manifest = {
    "version": 1,
    "setup_cmd": "./check --build-all",
    "hooks": {
        "guard": "--cfg petrichorit_des_verif",
        "enable": "harness/.cargo/config.toml sets rustflags = [\"--cfg\", \"tokio_unstable\", \"--cfg\", \"petrichorit_des_verif\"]; the harness crate has path dependencies on /repo/des, /repo/des-cqueue, /repo/des-net-utils, so ./check rebuilds them from /repo's working tree with the hooks on",
        "baseline_off_cmd": "cd /repo && cargo nextest run --workspace --no-fail-fast --tool-config-file pb:/w/lib/nextest.toml --profile pb --test-threads 8 --offline",
        "source_commits": hook_commits(),
        "add_only": True,
    },
    "engines": [{
        "name": "vcheck",
        "path": "/verif/harness",
        "serves_properties": [c["property_id"] for c in checks],
        "kind_free_text": "own bounded exhaustive explorer in Rust running the real des code: explicit-state BFS with canonical-state dedup (C01, C03 queue layer, C15, C16) and stateless complete enumeration of programs / configurations / schedules / fault placements against boring reference models; sharded over worker processes",
    }],
    "checks": checks,
    "not_applicable": na,
    "notes": "Every check is ./check <ID> quick|thorough (cwd /verif). ./check hashes /repo's sources and rebuilds the harness against them with hooks on. Known findings: /verif/KNOWN_FINDINGS.json. Exit 2 = machinery error (never a verdict).",
}
json.dump(manifest, open(os.path.join(ROOT, "MANIFEST.json"), "w"), indent=1)
print("checks:", [c["property_id"] for c in checks], "not_applicable:", [n["property_id"] for n in na])
