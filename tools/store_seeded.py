#!/usr/bin/env python3
"""tools/store_seeded.py <worktree-id> <seeded-name> <breaks> <needs...>  — copy a confirmed sub-agent change into /verif/seeded/"""
import json, os, shutil, sys
wt, name, breaks, needs = sys.argv[1], sys.argv[2], sys.argv[3], sys.argv[4]
second = len(sys.argv) > 5
d = f'/verif/seeded/{name}'; os.makedirs(d, exist_ok=True)
src = f'/tmp/wt/{wt}/MUTANT'
for f in os.listdir(src):
    if f in ('hold', 'confirm.patch'): continue
    if os.path.isfile(os.path.join(src, f)): shutil.copy(os.path.join(src, f), os.path.join(d, f))
meta = {"id": name, "breaks_property": breaks,
        "written_by": "independent sub-agent given only the property text and a scratch worktree" + (" (second change for this property; told which earlier idea not to reuse)" if second else ""),
        "needs_to_manifest": needs,
        "confirmed": {"suite_with_change": "221 passed, 0 failed (demo moved aside)", "demo_with_change": "fails", "demo_without_change": "passes", "how": "tools/confirm_seeded.sh in the scratch worktree"},
        "checks_run": "see DESIGN.md section 9.6 and results.txt in this directory"}
json.dump(meta, open(f'{d}/meta.json', 'w'), indent=1)
print("stored", d)
