#!/usr/bin/env python3
"""Prints the table of DESIGN.md 9.5 from evidence/*.json (quick tier) and the logs of the background thorough runs (latest run wins)."""
import json, re, glob, sys
th = {}
for n in sorted(glob.glob('/root/.vp/runs/*/log'), key=lambda p: int(p.split('/')[-2])):
    for l in open(n, errors='replace'):
        m = re.match(r'(C\d\d) thorough: evaluations=(\d+) states=(\d+) transitions=(\d+).* violations=(\d+) .*wall=([\d.]+)s', l)
        if m:
            th[m.group(1)] = (int(m.group(2)), int(m.group(4)), int(m.group(5)), float(m.group(6)), n.split('/')[-2])
print("| ID | executions (quick) | transitions | wall | executions (thorough) | transitions | wall | thorough run |")
print("|---|---|---|---|---|---|---|---|")
for i in range(1, 21):
    k = f"C{i:02d}"
    e = json.load(open(f'/verif/evidence/{k}.json'))
    c = e['coverage']
    t = th.get(k)
    tr = c.get('transitions', c.get('model', {}).get('transitions', ''))
    print(f"| {k} | {c['evaluations']:.2e} | {tr if isinstance(tr,str) else format(tr,'.2e')} | {e['wall_s']:.1f} s | " + (f"{t[0]:.2e} | {t[1]:.2e} | {t[3]:.0f} s | #{t[4]} |" if t else "- | - | - | - |"))
