#!/usr/bin/env python3
import json, sys, glob
import jsonschema
m = json.load(open('/verif/MANIFEST.json')); s = json.load(open('/root/.vp/MANIFEST.schema.json'))
jsonschema.validate(m, s); print("manifest ok:", len(m["checks"]), "checks")
es = json.load(open('/root/.vp/EVIDENCE.schema.json'))
for f in sorted(glob.glob('/verif/evidence/*.json')):
    jsonschema.validate(json.load(open(f)), es); print("evidence ok:", f)
