#!/bin/bash
# tools/rerun_all_seeded.sh [name-glob]   re-run every stored seeded change against the quick checks
# FOCUS=1: only the check of the property the change was written for and the checks that reported it
# before are re-run; their lines in results.txt are replaced, the other lines are kept.
# (meant for `vp run --with-repo -- bash -c 'VERIF_REPO=$VP_RUN_REPO FOCUS=1 tools/rerun_all_seeded.sh'`: works on
# the snapshot's own copy of the repository and of /verif; results land in seeded/<name>/results.txt there)
set -u
cd "$(dirname "$0")/.."
for d in seeded/${1:-*}/; do
  n=$(basename "$d")
  ids=""
  if [ "${FOCUS:-0}" = 1 ] && [ -f "$d/results.txt" ]; then
    own=$(python3 -c "import json;print(json.load(open('$d/meta.json'))['breaks_property'])")
    ids="$own $(grep -o '^C[0-9][0-9] \(VIOLATION\|MACHINERY\)' "$d/results.txt" | cut -c1-3 | tr '\n' ' ')"
    ids=$(echo $ids | tr ' ' '\n' | sort -u | tr '\n' ' ')
  fi
  VERIF_WALL_CAP_S=${VERIF_WALL_CAP_S:-150} tools/run_seeded.sh "$d/patch.diff" $ids > "$d/results.txt.new" 2>&1
  if [ -n "$ids" ]; then
    python3 - "$d" <<'PY'
import sys,re
d=sys.argv[1]
old=open(d+'/results.txt').read().splitlines()
new={l[:3]:l for l in open(d+'/results.txt.new').read().splitlines() if re.match(r'^C\d\d ',l)}
extra=[l for l in open(d+'/results.txt.new').read().splitlines() if not re.match(r'^C\d\d ',l)]
out=[new.get(l[:3],l) if re.match(r'^C\d\d ',l) else l for l in old]
open(d+'/results.txt','w').write('\n'.join(out+extra)+'\n')
PY
    rm -f "$d/results.txt.new"
  else
    mv "$d/results.txt.new" "$d/results.txt"
  fi
  echo "$n :: $(grep -c ' ok$' "$d/results.txt") ok :: $(grep -o '^C[0-9][0-9] VIOLATION' "$d/results.txt" | cut -c1-3 | tr '\n' ' ') :: $(grep -o '^C[0-9][0-9] MACHINERY' "$d/results.txt" | cut -c1-3 | tr '\n' ' ') :: $(grep -v '^C[0-9][0-9] ' "$d/results.txt" | head -1)"
done
