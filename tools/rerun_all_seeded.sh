#!/bin/bash
# tools/rerun_all_seeded.sh [name-glob]   re-run every stored seeded change against all quick checks
# (meant for `vp run --with-repo -- bash -c 'VERIF_REPO=$VP_RUN_REPO tools/rerun_all_seeded.sh'`: works on
# the snapshot's own copy of the repository and of /verif; results land in seeded/<name>/results.txt there)
set -u
cd "$(dirname "$0")/.."
for d in seeded/${1:-*}/; do
  n=$(basename "$d")
  VERIF_WALL_CAP_S=${VERIF_WALL_CAP_S:-150} tools/run_seeded.sh "$d/patch.diff" > "$d/results.txt.new" 2>&1
  mv "$d/results.txt.new" "$d/results.txt"
  echo "$n :: $(grep -c ' ok$' "$d/results.txt") ok :: $(grep -o '^C[0-9][0-9] VIOLATION' "$d/results.txt" | cut -c1-3 | tr '\n' ' ') :: $(grep -o '^C[0-9][0-9] MACHINERY' "$d/results.txt" | cut -c1-3 | tr '\n' ' ')"
done
