#!/usr/bin/env python3
"""tools/make_prompts.py <round> <ID>...  — write /tmp/wt/<ID>.promptN.txt listing every idea already used for that property (from seeded/*/meta.json)"""
import json, glob, sys, os
rnd = sys.argv[1]; ids = sys.argv[2:]
TMPL = '/tmp/wt/PROMPT.tmpl'
if not os.path.exists(TMPL):
    sys.exit("missing /tmp/wt/PROMPT.tmpl (copy from /verif/tools/PROMPT.tmpl)")
t = open(TMPL).read()
props = {json.loads(l)['id']: json.loads(l) for l in open('/verif/properties.jsonl')}
for i in ids:
    p = props[i]
    txt = f"{p['id']} — {p['title']}\n\n{p['statement']}\n\nQuantified over: {p['quantifier']['text']}\n"
    used = []
    for d in sorted(glob.glob('/verif/seeded/*/meta.json')):
        m = json.load(open(d))
        if m['breaks_property'] == i:
            patch = open(os.path.dirname(d) + '/patch.diff').read()
            files = sorted(set(l[6:] for l in patch.splitlines() if l.startswith('+++ b/')))
            used.append(f"- ({', '.join(files)}) {m['needs_to_manifest']}")
    body = t.replace('__ID__', i).replace('__PROPERTY__', txt)
    body += ("\n\nAdditional constraints for this assignment. Earlier participants already planted the following defects for this property; "
             "do NOT reuse any of these mechanisms or near variants of them (described by what they need in order to manifest):\n" + "\n".join(used) +
             "\n\nFind a genuinely different mechanism. Good candidates are defects that involve TWO cooperating sites that each look fine alone, a forgotten update on ONE of several code paths, "
             "state that survives from an earlier operation (a cache, a counter, a flag) and is wrong only after a particular sequence, or a boundary that is only reached with a specific combination of parameters. "
             "Explore parts of the code that the list above has not touched yet.\n")
    open(f'/tmp/wt/{i}.prompt{rnd}.txt', 'w').write(body)
    print(i, len(used), "earlier ideas")
