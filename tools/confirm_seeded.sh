#!/bin/bash
# tools/confirm_seeded.sh <worktree>  — confirm a sub-agent's change independently:
#  (1) suite without the demo: 221 pass with the change; (2) demo fails with the change; (3) demo passes without it.
set -u
WT="$1"; cd "$WT" || exit 2
T='cargo nextest run --workspace --no-fail-fast --tool-config-file pb:/w/lib/nextest.toml --profile pb --test-threads 8 --offline'
DEMOS=$(git status --porcelain | awk '$1=="??"{print $2}' | grep -v '^MUTANT' | grep -v '^target')
echo "demo files: $DEMOS"
git diff --stat -- des des-cqueue des-net-utils des-macros des-macros-core | tail -1
mkdir -p MUTANT/hold
# (1) suite with the change, demos aside
for d in $DEMOS; do mkdir -p "MUTANT/hold/$(dirname $d)"; mv "$d" "MUTANT/hold/$d"; done
echo "(1) suite with change: $($T 2>&1 | grep -E 'Summary' )"
for d in $DEMOS; do mv "MUTANT/hold/$d" "$d"; done
# (2) demo with change
PK=""; for d in $DEMOS; do PK="$PK -p $(echo $d | cut -d/ -f1)"; done
echo "(2) demo with change: $(cargo nextest run $PK --test mutant_demo --no-fail-fast --tool-config-file pb:/w/lib/nextest.toml --profile pb --offline 2>&1 | grep -E 'Summary')"
# (3) demo without change
git diff -- des des-cqueue des-net-utils des-macros des-macros-core > MUTANT/confirm.patch
git apply -R MUTANT/confirm.patch
find des des-cqueue des-net-utils -name '*.rs' -newer MUTANT/confirm.patch >/dev/null; touch $(git diff --name-only HEAD 2>/dev/null) $(grep '^+++ b/' MUTANT/confirm.patch | cut -c7-) 2>/dev/null
echo "(3) demo without change: $(cargo nextest run $PK --test mutant_demo --no-fail-fast --tool-config-file pb:/w/lib/nextest.toml --profile pb --offline 2>&1 | grep -E 'Summary')"
git apply MUTANT/confirm.patch; touch $(grep '^+++ b/' MUTANT/confirm.patch | cut -c7-)
