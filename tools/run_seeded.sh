#!/bin/bash
# tools/run_seeded.sh <patch.diff> [ID ...]   apply a seeded change to /repo's (or $VERIF_REPO's) working tree, run the quick checks, always undo
# prints one line per check: <ID> ok | VIOLATION | MACHINERY-ERROR(<code>)
set -u
PATCH="$(realpath "$1")"; shift
IDS="${*:-C01 C02 C03 C04 C05 C06 C07 C08 C09 C10 C11 C12 C13 C14 C15 C16 C17 C18 C19 C20}"
R="${VERIF_REPO:-/repo}"
cd "$(dirname "$0")/.."
if ! git -C "$R" diff --quiet; then echo "refusing: /repo has uncommitted changes" >&2; exit 2; fi
undo() { git -C "$R" checkout -- . ; }
trap undo EXIT
git -C "$R" apply "$PATCH" || { echo "patch does not apply" >&2; exit 2; }
for id in $IDS; do
  out="$(VERIF_WALL_CAP_S=${VERIF_WALL_CAP_S:-150} VERIF_STALL_S=${VERIF_STALL_S:-15} ./check "$id" ${TIER:-quick} 2>&1)"; code=$?
  case $code in
    0) echo "$id ok" ;;
    1) echo "$id VIOLATION :: $(echo "$out" | grep -m1 -A1 '^VIOLATION' | tail -1 | cut -c1-260)" ;;
    *) echo "$id MACHINERY-ERROR($code) :: $(echo "$out" | grep -m1 'MACHINERY' | cut -c1-200)" ;;
  esac
done
