# table of claimed checks: chk(id, category, technique, level text, level note, design ref)
NOT_APPLICABLE = {}

chk("C01", "model_checking",
    "explicit-state BFS over operation histories of the real CQueue with canonical-state dedup, reference-list oracle on every step",
    "All add/fetch/cancel histories up to depth 6 (quick) / 7-8 (thorough) over a delta alphabet that forces ties, bucket boundaries, year wraps and far-future outliers, on 8 (quick) / 26 (thorough) queue parameterisations, executed on the real CQueue and compared step by step with a reference list; every new state is drained through the public API. Exhaustive inside these bounds, which is the right level for a data structure whose defects need a particular short interleaving.",
    "Bounded depth and delta alphabet; canonical-state merging argued in DESIGN.md C01 and cross-checked against a no-dedup run (thorough); snapshot hook trusted only for the state key, never for the verdict.",
    "DESIGN.md section 4, C01")
