# table of claimed checks: chk(id, category, technique, level text, level note, design ref)
NOT_APPLICABLE = {}

chk("C01", "model_checking",
    "explicit-state BFS over operation histories of the real CQueue with canonical-state dedup, reference-list oracle on every step",
    "All add/fetch/cancel histories up to depth 6 (quick) / 7-8 (thorough) over a delta alphabet that forces ties, bucket boundaries, year wraps and far-future outliers, on 8 (quick) / 26 (thorough) queue parameterisations, executed on the real CQueue and compared step by step with a reference list; every new state is drained through the public API. Exhaustive inside these bounds, which is the right level for a data structure whose defects need a particular short interleaving.",
    "Bounded depth and delta alphabet; canonical-state merging argued in DESIGN.md C01 and cross-checked against a no-dedup run (thorough); snapshot hook trusted only for the state key, never for the verdict.",
    "DESIGN.md section 4, C01")

chk("C02", "model_checking",
    "stateless complete enumeration of event programs x start times x queue parameters x probe placements on the real Runtime, causal timestamp oracle",
    "Every event program (forest) of up to 4 (quick) / 5 (thorough) events with delays around bucket and year boundaries, on 3 start times and 4-6 queue parameterisations, each run plainly, with an add_event probe (at now: must be accepted; 1ns, t, start before now: must panic, leave the clock and the run untouched) placed before run and inside every handler, and stepped (dispatch_n_events(k) for every k, then an external add at every time around the program's timestamps, then run to the end). At the network level, messages injected through add_message_onto / handle_message_on at 8 offsets around the reported time, before run and while paused, on 4 start times. Exhaustive over that grid; the clock/timestamp relation needs exactly this kind of universally quantified small-scope check.",
    "Bounded program size and delay alphabet; expected timestamps computed causally from the program, independent of the tie rule.",
    "DESIGN.md section 4, C02")

chk("C03", "model_checking",
    "explicit-state BFS of the real CQueue with a tie-order oracle + complete enumeration of tie-heavy runtime programs (differential over queue parameters) + all emission sequences of a network handler",
    "Queue layer: the C01 state space with fetch_next required to return exactly the head of the reference list ordered by (time, current-instant first, scheduling order). Runtime layer: all programs of up to 4/5 events over a parameter-independent delay alphabet, run on 5 queue parameterisations and with unrelated future events added; logs must equal the rule and each other. Net layer: all sequences of up to 5/7 actions (direct sends, latency-channel sends, zero and non-zero self-schedules) emitted by one handler, plus long bursts (16..70 events, thorough up to 300) of every periodic pattern of period 1..3 over six actions.",
    "cqueue backend only (default features). Across different receiving modules only parameter-independence of the order is demanded.",
    "DESIGN.md section 4, C03")

chk("C10", "model_checking",
    "stateless complete enumeration of event programs x step schedules (count cuts, time cuts, paused external adds) on the real Runtime; differential against the real uninterrupted run plus a pending-set shadow",
    "All programs of up to 3/4 events x all schedules of up to 2/3 steps (3 steps also in the quick tier for programs of up to 2 events) over dispatch_n_events(0..3), dispatch_events_until(every timestamp and +-1ns) and five placements of an external add while paused. Checks exact log equality with the uninterrupted run (no external adds), exact per-step counts/cut positions, paused sim_time / remaining / dispatched counters, acceptance of every paused add at or after the reported time, and exactly-once time-ordered delivery with external adds.",
    "Relative order of an externally added event and same-instant pending events is left to C03. Bounded program and schedule length.",
    "DESIGN.md section 4, C10")

chk("C11", "model_checking",
    "stateless complete enumeration of event programs x limit trees on the real Runtime against an independent limit evaluator applied to the real unlimited log",
    "All programs of up to 4/5 events x None, every EventCount around the total, every SimTime at/around every timestamp, And/Or of every pair in both operand orders, builder chains max_itr/max_time in both orders, every ordered pair of plain bounds added one after the other through max_itr/max_time and through limit(..).limit(..), and every depth-2 tree for programs of up to 3/4 events. Checks dispatched prefix, remaining events with timestamps, end time and event_count.",
    "The time-ordered sequence is taken from the real unlimited run (tie-rule independent).",
    "DESIGN.md section 4, C11")

chk("C15", "model_checking",
    "complete enumeration of add/fetch/cancel/drop histories x payload types x page sizes on the real CQueue with an allocator shadow map (observer hook) and a payload drop ledger",
    "Every history of up to 8 (quick) / 9 (thorough) operations followed by dropping the queue, for 8 payload types (1 B .. 2000 B, align 1..16, with destructors, ZST) and 2-3 page sizes each. Every allocation is checked for alignment, containment in an owned page and disjointness from live allocations, every release for matching a live allocation, pages for being released once and only when empty; payloads for exactly-once drop at the right moment and bit-for-bit return. A worker killed by a signal counts as a violation.",
    "Allocator events are reported by the cfg-guarded observer inside allocate/deallocate/add_page/Drop (trusted to be called where the real operations happen); one queue parameterisation (n=2, t=3ns) because bucket geometry is C01's subject.",
    "DESIGN.md section 4, C15")

chk("C16", "model_checking",
    "complete enumeration of operation histories over real Message values against a typed-value model with a live-object counter",
    "All histories of 4 (quick) / 5 (thorough) operations from 82 (set / try_cast / try_content / can_cast for 20 body types incl. layout twins u32-i32-f32-[u8;4]-newtype, derived struct / enum / nested / tuple struct / generic struct / 4-variant enum, Result, Box, tuple, an array with unequal element lengths, ZST, non-Clone; try_clone; drop) and of 5 / 6 operations from 38 (9 core types). After every step: cast/borrow succeeds iff same type and yields the stored value, failure returns the message intact, stored values alive == model, length == 64 + independently computed byte length; plus one simulation per type checking the channel charges length*8/bitrate.",
    "Mutation through content_mut is outside the stated alphabet. Worker crash (double free) counts as violation.",
    "DESIGN.md section 4, C16")

chk("C17", "model_checking",
    "complete enumeration of flat dotted-key configurations x include orders on a real Sim against a reference matcher; enumeration of typed access sequences for the type rule",
    "Every configuration of 1-2 entries over 310 candidate keys (segments a, ab, b, aß, <any> at depth 1-3, properties x and y.z), every 3-entry configuration with at most one deep key (quick) / over all keys (thorough), each in every file order of its entries, included before, after, or split around node creation, observed on 11 module paths of depth 1-4; props_keys and values must equal the reference matcher's. Type rule: every sequence of 3/4 typed reads/writes over 5 types on 4 configured values and an absent property.",
    "Flat keys only; when several entries match one property any of their values is accepted.",
    "DESIGN.md section 4, C17")

chk("C18", "model_checking",
    "complete enumeration of a bounded NDL grammar with an independent reference elaborator (conformance) + exhaustive single-point mutation (semantic menu and every scalar x token menu) for totality",
    "All 8192 documents of a 13-feature grammar (incl. several fields typed with one generic parameter and size-one clusters) are built into a real Sim and compared (module paths with registered software, gate clusters, connections with link metrics) with a reference elaborator; 17 semantic single-point mutations (one per error cause in the statement) on all 8192 documents must yield an error; every scalar of 4 hand-written + 64 (quick) / 8192 (thorough) generated documents is replaced by each of 75 garbled or dangling tokens and parsing + elaboration must never panic.",
    "Build-phase panics of textually mutated documents (descriptions outside the statement's precondition: gate connected to itself or to more than two peers, duplicate/empty submodule names, non-numeric or negative link parameters) are counted, not judged; instantiation of valid documents is judged by the conformance part.",
    "DESIGN.md section 4, C18")

chk("C05", "model_checking",
    "complete enumeration of async task scripts (1-3 tasks, 1-3 steps from a 151-step alphabet, optional module restart) on a real simulation against a reference interpreter with exact virtual time",
    "Every single-task script of up to 2 (quick) / 3 (thorough) steps, every two-task combination (1 | 1) and (1 | 2) steps (quick: first task over a core sub-alphabet; thorough: full alphabet, plus three tasks over the core), and every script of up to 2 steps with the module shut down and restarted, over an alphabet of 151 steps: sleeps, sleep_until, timeouts (over sleep, pending, far-future, message-fed flag), biased selects in both branch orders, create-poll-drop, resets before/after the first poll (to another, the same, an earlier or an already passed deadline, also after another timer ran), Interval::reset, intervals with the three missed-tick behaviours and busy gaps around the 5 ms tolerance. Each await must return at exactly the computed instant with the computed value, every joined task must finish and the run must end within [last completion, latest finite deadline registered].",
    "A message-fed future that becomes ready at exactly a competing deadline is a same-instant tie between two events and accepts both results. Futures polled with changing wakers are outside the alphabet.",
    "DESIGN.md section 4, C05")

chk("C07", "model_checking",
    "complete enumeration of channel metrics x traffic patterns on a real 2/3-module simulation against a reference channel that branches on same-instant ties",
    "4 bitrates (0, 8 kbit/s, 1 Mbit/s, sub-nanosecond transmission) x 2 latencies x 2 jitters x 7 policies (Drop, unbounded, byte limits at 0 / one message -1 / exactly one / two / three messages) x all patterns of up to 4 (quick) / 5 (thorough) messages with 3 body sizes and 5 gaps around the transmission time, plus a 2-hop variant. Every message is delivered exactly once at the computed time or dropped by the stated rule, order is preserved without jitter, no body survives the run, and is_busy / transmission_finish_time sampled at every sender tick agree with the busy intervals.",
    "1 ns tolerance for float rounding; same-instant ties (offer at the idle instant, busy sample on an interval boundary) accept both resolutions.",
    "DESIGN.md section 4, C07")

chk("C08", "model_checking",
    "complete enumeration of gate-chain constructions (connect orders x orientations x channel placements x layouts x directions x send kinds) on a real simulation",
    "Chains of 2..5 (quick) / 2..6 (thorough) gates, all (k-1)! connect orders, 2^(k-1) orientations, 2^(k-1) placements of distinct-latency channels, three gate layouts (one module per gate, two chain gates on one module, cluster-element ends), both directions, send / send_in / add_message_onto, with and without re-issuing every connect in both orientations. Exactly one delivery at the far-end owner at send time + sum of latencies with correct header fields; kind(), mirror-image path_iter, path_end / next_gate, channels on the declared hops, third peer rejected.",
    "Pure-latency channels (bitrate 0); busy/queue rules are C07's.",
    "DESIGN.md section 4, C08")

chk("C12", "model_checking",
    "complete enumeration of module forests x valid insertion orders x stage counts on a real simulation",
    "All rooted forests of up to 5 (quick) / 6 (thorough) nodes with prefix-sharing names, every parent-before-child insertion order, every assignment of 1..3 start stages (up to 4 nodes; beyond that at most two deviating nodes). at_sim_start order must be stage-major depth-first pre-order with siblings in creation order, exactly once per stage and before the first event; at_sim_end exactly once per module after the last event; parent/child/path/name lookups must agree with the tree; duplicate paths and orphans are rejected at depths 1..3.",
    "Builder-created trees only (NDL-built trees are compared in C18).",
    "DESIGN.md section 4, C12")

chk("C19", "model_checking",
    "complete enumeration of module multigraphs and queries on a real simulation against a reference adjacency list",
    "All multigraphs on up to 4 (quick) / 5 (thorough) modules with parallel chains (up to 2 per pair for 3 modules, thorough also for 4), self chains, the first chain routed directly / through one transit gate on each module / through 15 transit gates (16 hops). Global view, connected, bidirectional, spanned from every root, dijkstra from every source (first edge of a BFS-minimal path), filter_nodes for every subset, filter_edges for every single edge and for the two one-directional views (edges towards higher / lower module indices only) with connected and bidirectional on the result.",
    "Chains longer than 16 hops are outside the supported range.",
    "DESIGN.md section 4, C19")

chk("C04", "exploration",
    "complete grid of generated models x seeds, each executed twice per process and in two worker processes, full-trace comparison",
    "32 generated models (4 topologies incl. an NDL-built cluster network and a star with submodules and a gate cluster; channel jitter; restart at a random-drawn time; interval/sample tasks) x 5 seeds incl. VERIF_SEED (17 thorough). Every module draws random() in handlers and tasks, runs an unbiased 4-way select! over equal deadlines and a receive and sends over random subsets of gates. Each (model, seed) is run by two different worker processes, twice in each (the second time after other simulations ran); all four complete traces must be identical, and different seeds must give different traces (vacuity guard).",
    "Exhaustive over the stated grid only ('all seeds' and 'all models' are unbounded). The trace holds what the statement lists (times, module paths, callbacks, message kind/id, drawn values, select branches, final time, event count, result), not raw ids or addresses.",
    "DESIGN.md section 4, C04")

chk("C06", "exploration",
    "complete grid of wake-up pattern x trigger x spawn kind x number of runnable tasks on a real simulation; findings matched by predicates over the case",
    "15 patterns (N sleepers on one deadline, oneshot chain, Notify, Semaphore, broadcast, one task draining N messages, handler spawning N tasks, join of N handles, start stage, restart, timer-then-notify chain, yield, tasks released by a processing element that consumes the message / in its event_start hook / in its event_end hook) x tokio::spawn / spawn_local x every N in 1..70 plus 100, 127..130, 200, 500, 1000 (thorough 2000, 5000). Every task logs the simulated time right after its await, which must equal the enabling instant; all awaited conditions must be observed; a bystander module's trace must be unchanged. Two documented findings (KNOWN_FINDINGS.json) are matched by predicates over the case, everything else is a violation.",
    "Grid exhaustive, not 'thousands of tasks' in general. A failing case is classified from its inputs only (spawn kind, polls needed, budgeted operations per poll, explicit yield).",
    "DESIGN.md section 4, C06")

chk("C09", "model_checking",
    "complete enumeration of shutdown/restart timelines on a real 3-module simulation against an expectation computed from the plan by interval logic",
    "Shutdown time x restart delay (none, 0, 2, 5) x requested from handler / task x old task deadline x new task sleep x second cycle (4 variants) x route (to the victim / through its transit gate) x direct / latency channel / restart requested by absolute time x every set of up to 2 (quick) / 3 (thorough) message arrival times out of 10, plus shutdown requested in each of 3 start stages. No callback, task step or timer of the victim inside an inert window, messages inside it dropped and never delivered later, reset once per shutdown, start stages once at exactly the restart time, old tasks never resume and their captures are dropped, the peer receives exactly the echoes.",
    "An event at exactly the shutdown/restart instant is a tie and accepted either way. Old self-scheduled messages arriving after the restart are delivered (not flagged).",
    "DESIGN.md section 4, C09")

chk("C13", "fault_enumeration",
    "enumeration of every panic placement (module x callback x occurrence, singles and pairs) x stereotypes, differential against the real run in which the faulty module shuts down at the same point",
    "Panics in start stage 0/1, the 1st/2nd/3rd/5th message (thorough: also 4th/6th/7th), tear-down and a joined task of one, two or three of five modules, each with catching or non-catching stereotype (4912 placements quick, 12166 thorough). run() must return; the healthy modules' complete traces must equal those of the silent variant; a module that panicked in a callback must not be activated again before tear-down; the error must name exactly the non-catching panicking modules; a clean follow-up simulation in the same process must reproduce the clean trace.",
    "Joined-task panics: only the unambiguous part is asserted (see DESIGN.md C13). Tear-down of a panicked module (at_sim_end and the task polling it implies) is not counted as a wake-up.",
    "DESIGN.md section 4, C13")

chk("C14", "model_checking",
    "complete enumeration of processing stacks (global x per-module, append/replace) x element behaviours on a real simulation; expected call log computed directly",
    "Every global stack of up to 3 (quick) / 4 (thorough) and per-module stack of up to 2 / 3 elements (appended element by element, appended as one multi-element stack, or replacing the global stack) over six behaviours (pass, modify, consume kind 1 / 2, send on event_start / event_end); the module sees a start stage, two messages, a timer wake-up and tear-down. The complete call log (event_start in order, incoming until consumed, handler iff not consumed, event_end reversed, emitted messages in program order at a sink) must equal the bracket structure.",
    "Panicking elements and stacks changed at run time are outside the alphabet.",
    "DESIGN.md section 4, C14")

chk("C20", "model_checking",
    "complete enumeration of generated simulations x stopping points x drop orders with per-kind live-object counters; reference simulation after every case and across worker processes",
    "192 (quick) / 384 (thorough) generated simulations (3 queue policies, blocked tasks, restarted transit module, panicking receiver, bursts, processing elements, messages emitted from at_sim_end, a closed gate ring with probed channels; parent/child modules and a ring of busy channels through a transit gate) x every stopping point: builder dropped, built, started and stepped 0..6/12 events, max_itr(k) for every k in both drop orders, 11 (thorough 63) time limits. After the last handle is gone every module state, task capture, message body, processing element and channel probe must have been dropped exactly once; then a reference simulation must reproduce its baseline trace (identical in all worker processes).",
    "User-level reference cycles are outside the alphabet.",
    "DESIGN.md section 4, C20")
