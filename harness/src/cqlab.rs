//! Explicit-state exploration of `des_cqueue::CQueue` operation histories against a
//! reference list (shared by C01 and the queue layer of C03).

use crate::{Ctx, Fnv};
use des_cqueue::{CQueue, EventHandle};
use serde_json::{json, Value};
use std::collections::HashSet;
use std::hash::{Hash, Hasher};
use std::time::Duration;

#[derive(Clone, Copy, Debug, PartialEq, Eq, Hash)]
pub enum Op {
    /// add at `time() + delta` (ns)
    Add(u64),
    Fetch,
    /// cancel the handle issued by the j-th add
    Cancel(usize),
}

impl Op {
    pub fn to_json(self) -> Value {
        match self {
            Op::Add(d) => json!(["add", d]),
            Op::Fetch => json!(["fetch"]),
            Op::Cancel(j) => json!(["cancel", j]),
        }
    }
    pub fn from_json(v: &Value) -> Op {
        match v[0].as_str().unwrap() {
            "add" => Op::Add(v[1].as_u64().unwrap()),
            "fetch" => Op::Fetch,
            "cancel" => Op::Cancel(v[1].as_u64().unwrap() as usize),
            o => panic!("bad op {o}"),
        }
    }
}

#[derive(Clone, Copy, Debug, PartialEq, Eq)]
pub enum St {
    Live,
    Fetched,
    Cancelled,
}

pub struct RefEv {
    pub time: u128,
    /// 0 = scheduled for the instant that was current when it was scheduled
    pub class: u8,
    pub seq: u64,
    pub st: St,
}

pub struct Exec {
    pub q: CQueue<u32>,
    pub handles: Vec<Option<EventHandle<u32>>>,
    pub evs: Vec<RefEv>,
    /// timestamp of the last fetched event (zero initially)
    pub cur: u128,
    pub seq: u64,
    pub n: usize,
    pub t: u64,
}

#[derive(Debug, Clone)]
pub enum Fail {
    Panic(String),
    Wrong(String),
}
impl Fail {
    pub fn text(&self) -> String {
        match self {
            Fail::Panic(s) => format!("subject panicked in {s}"),
            Fail::Wrong(s) => s.clone(),
        }
    }
}

/// Features of one applied op (for vacuity guards).
#[derive(Default, Clone, Copy)]
pub struct OpFacts {
    pub add_zero: bool,
    pub tie_fetch: bool,
    pub year_skip_fetch: bool,
    pub cancel_live_zero_class: bool,
    pub cancel_live_current_time_bucketed: bool,
    pub cancel_live_future: bool,
    pub cancel_dead: bool,
    pub later_year_same_bucket: bool,
}

impl Exec {
    pub fn new(n: usize, t: u64) -> Self {
        Exec { q: CQueue::new(n, Duration::from_nanos(t)), handles: vec![], evs: vec![], cur: 0, seq: 0, n, t }
    }

    pub fn live(&self) -> impl Iterator<Item = usize> + '_ {
        (0..self.evs.len()).filter(|&i| self.evs[i].st == St::Live)
    }

    /// Applies one op to the real queue and to the reference, checking the observable
    /// behaviour. `tie`: additionally demand the C03 tie order.
    pub fn apply(&mut self, op: Op, tie: bool, facts: &mut OpFacts) -> Result<(), Fail> {
        let tw = u128::from(self.t);
        let year = self.n as u128 * tw;
        match op {
            Op::Add(d) => {
                let t = self.q.time() + Duration::from_nanos(d);
                let id = self.evs.len() as u32;
                let q = &mut self.q;
                let h = crate::quiet_catch(|| q.add(t, id)).map_err(|m| Fail::Panic(format!("add: {m}")))?;
                self.handles.push(Some(h));
                let tn = t.as_nanos();
                facts.add_zero = tn == self.cur;
                self.evs.push(RefEv { time: tn, class: u8::from(tn != self.cur), seq: self.seq, st: St::Live });
                self.seq += 1;
            }
            Op::Fetch => {
                let q = &mut self.q;
                let (id, t) = crate::quiet_catch(|| q.fetch_next()).map_err(|m| Fail::Panic(format!("fetch_next: {m}")))?;
                let live: Vec<usize> = self.live().collect();
                let min_t = live.iter().map(|&i| self.evs[i].time).min().unwrap();
                let Some(e) = self.evs.get(id as usize) else {
                    return Err(Fail::Wrong(format!("fetched unknown payload {id}")));
                };
                if e.st != St::Live {
                    return Err(Fail::Wrong(format!("fetched event {id} which is {:?}", e.st)));
                }
                if t.as_nanos() != e.time {
                    return Err(Fail::Wrong(format!("event {id} returned with time {}ns, scheduled at {}ns", t.as_nanos(), e.time)));
                }
                if e.time != min_t {
                    return Err(Fail::Wrong(format!("fetched event {id} at {}ns but the earliest pending event is at {min_t}ns", e.time)));
                }
                let ties = live.iter().filter(|&&i| self.evs[i].time == min_t).count();
                facts.tie_fetch = ties > 1;
                if tie {
                    let best = *live.iter().min_by_key(|&&i| (self.evs[i].time, self.evs[i].class, self.evs[i].seq)).unwrap();
                    if best != id as usize {
                        return Err(Fail::Wrong(format!("tie order: fetched event {id}, the scheduling-order rule says {best}")));
                    }
                }
                // a pending event in a bucket the scan passed over belongs to a later year
                facts.year_skip_fetch = live.iter().any(|&i| self.evs[i].time >= min_t + year);
                facts.later_year_same_bucket =
                    live.iter().any(|&i| self.evs[i].time != min_t && (self.evs[i].time % year) / tw == (min_t % year) / tw);
                self.evs[id as usize].st = St::Fetched;
                self.cur = t.as_nanos();
            }
            Op::Cancel(j) => {
                let h = self.handles[j].take().expect("cancel of a consumed handle is not in the alphabet");
                let before = self.q.len();
                let q = &mut self.q;
                crate::quiet_catch(|| q.cancel(h)).map_err(|m| Fail::Panic(format!("cancel: {m}")))?;
                if self.evs[j].st == St::Live {
                    if self.evs[j].class == 0 && self.evs[j].time == self.cur {
                        facts.cancel_live_zero_class = true;
                    } else if self.evs[j].time == self.cur {
                        facts.cancel_live_current_time_bucketed = true;
                    } else {
                        facts.cancel_live_future = true;
                    }
                    self.evs[j].st = St::Cancelled;
                } else {
                    facts.cancel_dead = true;
                    if self.q.len() != before {
                        return Err(Fail::Wrong(format!(
                            "cancel of already {:?} event {j} changed len from {before} to {}",
                            self.evs[j].st,
                            self.q.len()
                        )));
                    }
                }
            }
        }
        let live = self.live().count();
        if self.q.len() != live {
            return Err(Fail::Wrong(format!("len() = {} but scheduled - cancelled - fetched = {live}", self.q.len())));
        }
        if self.q.is_empty() != (live == 0) {
            return Err(Fail::Wrong(format!("is_empty() = {} with {live} pending", self.q.is_empty())));
        }
        Ok(())
    }

    /// Drains the queue through `fetch_next`, comparing with the reference.
    pub fn drain(&mut self, tie: bool) -> Result<(), Fail> {
        let mut guard = self.evs.len() + 2;
        while self.live().count() > 0 {
            if self.q.is_empty() {
                return Err(Fail::Wrong(format!("queue reports empty with {} events pending (drain)", self.live().count())));
            }
            let mut f = OpFacts::default();
            self.apply(Op::Fetch, tie, &mut f).map_err(|e| match e {
                Fail::Wrong(s) => Fail::Wrong(format!("while draining: {s}")),
                Fail::Panic(s) => Fail::Panic(format!("{s} (while draining)")),
            })?;
            guard -= 1;
            if guard == 0 {
                return Err(Fail::Wrong("drain does not terminate".into()));
            }
        }
        if !self.q.is_empty() {
            return Err(Fail::Wrong("queue not empty after every pending event was fetched".into()));
        }
        Ok(())
    }

    /// Structural facts of the snapshot — diagnostics only, never a verdict.
    pub fn structural_diagnostics(&self) -> Option<String> {
        let s = self.q.verif_snapshot();
        let y = s.t.as_nanos() * s.n as u128;
        let mut ids: Vec<usize> = vec![];
        for (time, id) in &s.zero {
            if *time != s.t_current {
                return Some("zero bucket holds an event with time != t_current".into());
            }
            ids.push(*id);
        }
        for (b, (fwd, bwd, len)) in s.buckets.iter().enumerate() {
            let mut r = bwd.clone();
            r.reverse();
            if *fwd != r || fwd.len() != *len {
                return Some(format!("bucket {b}: forward walk, backward walk and stored length disagree"));
            }
            if fwd.windows(2).any(|w| w[0].0 > w[1].0) {
                return Some(format!("bucket {b} is not sorted"));
            }
            for (time, id) in fwd {
                if ((time.as_nanos() % y) / s.t.as_nanos()) as usize % s.n != b {
                    return Some(format!("event in wrong bucket {b}"));
                }
                ids.push(*id);
            }
        }
        ids.sort_unstable();
        let exp: Vec<usize> = self.live().collect();
        if ids != exp {
            return Some(format!("snapshot live ids {ids:?} != reference {exp:?}"));
        }
        if s.t1 - s.t0 != s.t {
            return Some("t1 - t0 != t".into());
        }
        None
    }

    /// Canonical form of the implementation state (+ what the reference needs of dead handles).
    pub fn canon(&self) -> u64 {
        let s = self.q.verif_snapshot();
        let mut rank: Vec<(usize, usize)> = Vec::with_capacity(8);
        let mut r = |id: usize| -> usize {
            if let Some(p) = rank.iter().find(|p| p.0 == id) {
                p.1
            } else {
                let k = rank.len();
                rank.push((id, k));
                k
            }
        };
        let mut h = Fnv::new();
        (s.head, s.t_current, s.t0, s.t1, s.len).hash(&mut h);
        for (t, id) in &s.zero {
            (t, r(*id)).hash(&mut h);
        }
        0xffu8.hash(&mut h);
        for (fwd, _, _) in &s.buckets {
            for (t, id) in fwd {
                (t, r(*id)).hash(&mut h);
            }
            0xfeu8.hash(&mut h);
        }
        // The reference's view: pending events (time, class, seq-rank) and remaining handles.
        let mut live: Vec<usize> = self.live().collect();
        live.sort_by_key(|&i| self.evs[i].seq);
        for (k, &i) in live.iter().enumerate() {
            (0xfdu8, k, self.evs[i].time, self.evs[i].class, r(i), self.handles[i].is_some()).hash(&mut h);
        }
        let mut dead: Vec<u128> =
            (0..self.evs.len()).filter(|&j| self.handles[j].is_some() && self.evs[j].st != St::Live).map(|j| self.evs[j].time).collect();
        dead.sort_unstable();
        dead.hash(&mut h);
        self.cur.hash(&mut h);
        h.finish()
    }

    pub fn enabled(&self, deltas: &[u64]) -> Vec<Op> {
        let mut v: Vec<Op> = deltas.iter().map(|&d| Op::Add(d)).collect();
        if self.live().count() > 0 {
            v.push(Op::Fetch);
        }
        for (j, h) in self.handles.iter().enumerate() {
            if h.is_some() {
                v.push(Op::Cancel(j));
            }
        }
        v
    }
}

pub fn deltas_for(n: usize, t: u64) -> Vec<u64> {
    let y = n as u64 * t;
    let mut d = vec![0, 1, t.saturating_sub(1), t, t + 1, y.saturating_sub(1), y, y + 1, 3 * y + 2];
    d.sort_unstable();
    d.dedup();
    d
}

pub fn case_json(n: usize, t: u64, hist: &[Op], tie: bool) -> Value {
    json!({"n": n, "t_ns": t, "tie_oracle": tie, "ops": hist.iter().map(|o| o.to_json()).collect::<Vec<_>>()})
}

/// Runs a history from scratch; returns the executor and the first failure (op index).
pub fn run_hist(n: usize, t: u64, hist: &[Op], tie: bool, facts: &mut Vec<OpFacts>) -> (Exec, Result<(), (usize, Fail)>) {
    let mut x = Exec::new(n, t);
    for (i, &op) in hist.iter().enumerate() {
        let mut f = OpFacts::default();
        let r = x.apply(op, tie, &mut f);
        facts.push(f);
        if let Err(e) = r {
            return (x, Err((i, e)));
        }
    }
    (x, Ok(()))
}

/// Replays a recorded case (history + drain). Err(detail) iff it violates.
pub fn replay_case(case: &Value) -> Result<(), String> {
    let n = case["n"].as_u64().unwrap() as usize;
    let t = case["t_ns"].as_u64().unwrap();
    let tie = case["tie_oracle"].as_bool().unwrap_or(false);
    let hist: Vec<Op> = case["ops"].as_array().unwrap().iter().map(Op::from_json).collect();
    let mut facts = vec![];
    let (mut x, r) = run_hist(n, t, &hist, tie, &mut facts);
    match r {
        Err((i, f)) => Err(format!("op #{i} {:?}: {}", hist[i], f.text())),
        Ok(()) => x.drain(tie).map_err(|f| f.text()),
    }
}

fn record_facts(ctx: &mut Ctx, f: &OpFacts) {
    if f.add_zero {
        ctx.hit("add_at_current_time");
    }
    if f.tie_fetch {
        ctx.hit("fetch_with_tie");
    }
    if f.year_skip_fetch {
        ctx.hit("fetch_skipping_later_year_event");
    }
    if f.later_year_same_bucket {
        ctx.hit("fetch_bucket_shared_with_other_year");
    }
    if f.cancel_live_zero_class {
        ctx.hit("cancel_live_in_zero_bucket");
    }
    if f.cancel_live_current_time_bucketed {
        ctx.hit("cancel_live_bucketed_at_current_time");
    }
    if f.cancel_live_future {
        ctx.hit("cancel_live_future");
    }
    if f.cancel_dead {
        ctx.hit("cancel_dead_handle");
    }
}

/// Breadth-first exploration of all histories up to `depth` on configuration (n, t).
/// With `dedup`, histories whose canonical implementation state was seen before (at the same
/// or a smaller depth) are not expanded again. Work below depth `split` is partitioned over
/// workers. Returns the set of canonical keys seen (for the canon cross-check).
#[allow(clippy::too_many_arguments)]
pub fn bfs(ctx: &mut Ctx, n: usize, t: u64, depth: usize, tie: bool, dedup: bool, sharded: bool, class: &str) -> HashSet<u64> {
    let deltas = deltas_for(n, t);
    let split = 2.min(depth);
    let mut frontier: Vec<Vec<Op>> = vec![vec![]];
    let mut seen: HashSet<u64> = HashSet::new();
    let mut all_keys: HashSet<u64> = HashSet::new();
    let count_shared = !sharded || ctx.is_first_shard();
    if count_shared {
        ctx.out.states += 1;
    }
    let mut facts = Vec::with_capacity(depth + 1);
    for d in 0..depth {
        let mut next = vec![];
        let shared_level = d < split; // every worker walks these levels identically
        for (fi, hist) in frontier.iter().enumerate() {
            if sharded && d == split && fi as u64 % ctx.nshards != ctx.shard {
                continue;
            }
            facts.clear();
            let (x, r) = run_hist(n, t, hist, tie, &mut facts);
            debug_assert!(r.is_ok());
            for op in x.enabled(&deltas) {
                let mut h2 = hist.clone();
                h2.push(op);
                facts.clear();
                ctx.begin(|| case_json(n, t, &h2, tie));
                let (mut x2, r2) = run_hist(n, t, &h2, tie, &mut facts);
                let counted = !shared_level || count_shared;
                if counted {
                    ctx.out.transitions += 1;
                    ctx.out.evaluations += 1;
                    ctx.out.traces += 1;
                    if let Some(f) = facts.last() {
                        record_facts(ctx, f);
                    }
                }
                match r2 {
                    Err((i, f)) => {
                        if counted {
                            let detail = format!("(n={n}, t={t}ns) op #{i} {:?}: {}", h2[i], f.text());
                            ctx.violation(class, || case_json(n, t, &h2, tie), detail);
                        }
                    }
                    Ok(()) => {
                        let k = x2.canon();
                        all_keys.insert(k);
                        if counted {
                            ctx.outcome(k);
                            if let Some(dg) = x2.structural_diagnostics() {
                                ctx.hit("diag_structural_anomaly");
                                if !ctx.out.extra.contains_key("first_structural_diagnostic") {
                                    ctx.out.extra.insert(
                                        "first_structural_diagnostic".into(),
                                        json!({"case": case_json(n, t, &h2, tie), "what": dg}),
                                    );
                                }
                            }
                        }
                        let fresh = !dedup || seen.insert(k);
                        if fresh && counted {
                            ctx.out.states += 1;
                            if x2.live().count() > 0 {
                                ctx.out.nontrivial += 1;
                            }
                        }
                        // drain through the public API after *every* history (not only the first
                        // one reaching a canonical state): latent corruption must surface, also
                        // in state the canonical key cannot see
                        if let Err(f) = x2.drain(tie) {
                            if counted {
                                let detail = format!("(n={n}, t={t}ns) after {} ops: {}", h2.len(), f.text());
                                ctx.violation(class, || case_json(n, t, &h2, tie), detail);
                            }
                        } else if fresh {
                            if counted && h2.len() == 4 {
                                ctx.sample(|| case_json(n, t, &h2, tie));
                            }
                            if d + 1 < depth {
                                next.push(h2);
                            }
                        }
                    }
                }
            }
        }
        frontier = next;
    }
    all_keys
}
