//! `vcheck` — bounded exhaustive exploration of PetrichorIT/des against reference models.
//!
//! One binary per property (`src/bin/cNN.rs`); this library holds what they share:
//! the driver (sharding over worker processes, merging, evidence, replays, known
//! findings) and the small "lab" helpers (live-object registry, silent panics).

pub mod cqlab;
pub mod driver;
pub mod lab;
pub mod rtlab;
pub mod threadlab;

pub use driver::{run_property, Ctx, Property, Tier};
pub use serde_json;
pub use serde_json::{json, Value};

use std::hash::{Hash, Hasher};

/// Stable 64-bit fingerprint (FNV-1a over the `Hash` byte stream) — independent of
/// process-random hasher seeds, so that fingerprints can be merged across workers.
#[derive(Default)]
pub struct Fnv(u64);
impl Fnv {
    pub fn new() -> Self {
        Fnv(0xcbf2_9ce4_8422_2325)
    }
}
impl Hasher for Fnv {
    fn finish(&self) -> u64 {
        self.0
    }
    fn write(&mut self, bytes: &[u8]) {
        for b in bytes {
            self.0 ^= u64::from(*b);
            self.0 = self.0.wrapping_mul(0x0000_0100_0000_01b3);
        }
    }
}

pub fn fp<T: Hash + ?Sized>(v: &T) -> u64 {
    let mut h = Fnv::new();
    v.hash(&mut h);
    h.finish()
}

/// Runs `f` with panics caught and silenced; returns the panic message on unwind.
pub fn quiet_catch<R>(f: impl FnOnce() -> R) -> Result<R, String> {
    lab::silence_panics();
    std::panic::catch_unwind(std::panic::AssertUnwindSafe(f)).map_err(|e| {
        if let Some(s) = e.downcast_ref::<&str>() {
            (*s).to_string()
        } else if let Some(s) = e.downcast_ref::<String>() {
            s.clone()
        } else {
            "<non-string panic payload>".to_string()
        }
    })
}
