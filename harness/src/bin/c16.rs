//! C16 — message bodies are type safe, value preserving and measured consistently.
//! Complete enumeration of operation histories over a stack of real `Message`s
//! (set / try_clone / try_cast<T> / try_content<T> / can_cast<T> / drop, for every T of a
//! type alphabet with deliberate layout twins) against a typed-value model, with a live
//! object counter; plus one 2-module run per type tying `Message::length` to the
//! transmission time a channel charges.

use des::prelude::*;
use std::any::Any;
use std::fmt::Debug;
use std::sync::atomic::{AtomicIsize, Ordering::SeqCst};
use std::sync::{Arc, Mutex};
use vcheck::{json, quiet_catch, run_property, Ctx, Property, Tier, Value};

struct C16;

static LIVE: AtomicIsize = AtomicIsize::new(0);

trait Tracked: MessageBody + Any + Debug + Send + Sized + 'static {
    fn mk(v: u32) -> Self;
    /// decodes the value; None = internally inconsistent (bytes were reinterpreted/corrupted)
    fn val(&self) -> Option<u32>;
    /// byte length the statement demands, computed independently of `byte_len`
    fn exp_len(v: u32) -> usize;
    /// number of live-counted leaf objects in one value
    fn leaves(v: u32) -> isize;
}

macro_rules! leaf {
    ($name:ident, $inner:ty, $mk:expr, $val:expr, $len:expr) => {
        #[derive(Debug, PartialEq)]
        struct $name($inner);
        impl $name {
            fn new(i: $inner) -> Self {
                LIVE.fetch_add(1, SeqCst);
                $name(i)
            }
        }
        impl Clone for $name {
            fn clone(&self) -> Self {
                $name::new(self.0.clone())
            }
        }
        impl Drop for $name {
            fn drop(&mut self) {
                LIVE.fetch_sub(1, SeqCst);
            }
        }
        impl MessageBody for $name {
            fn byte_len(&self) -> usize {
                // the library's own measure of the wrapped type
                MessageBody::byte_len(&self.0)
            }
        }
        impl Tracked for $name {
            fn mk(v: u32) -> Self {
                let f: fn(u32) -> $inner = $mk;
                $name::new(f(v))
            }
            fn val(&self) -> Option<u32> {
                let f: fn(&$inner) -> Option<u32> = $val;
                f(&self.0)
            }
            fn exp_len(v: u32) -> usize {
                let f: fn(u32) -> usize = $len;
                f(v)
            }
            fn leaves(_: u32) -> isize {
                1
            }
        }
    };
}

fn strv(v: u32) -> String {
    format!("{v:07}")
}
leaf!(A, u32, |v| v, |i| Some(*i), |_| 4);
leaf!(B, i32, |v| v as i32, |i| Some(*i as u32), |_| 4);
leaf!(F, f32, |v| v as f32, |i| Some(*i as u32), |_| 4);
leaf!(C, [u8; 4], |v| v.to_le_bytes(), |i| Some(u32::from_le_bytes(*i)), |_| 4);
leaf!(D, String, strv, |i| i.parse().ok().filter(|v| strv(*v) == *i), |_| 7);
leaf!(V, Vec<u8>, |v| vec![v as u8; (v % 5) as usize + 1], |i| i.first().map(|b| u32::from(*b)).filter(|_| i.iter().all(|b| *b == i[0])), |v| (v % 5) as usize + 1);
leaf!(O, Option<u32>, |v| if v % 2 == 1 { Some(v) } else { None }, |i| Some(i.unwrap_or(0)), |v| if v % 2 == 1 { 4 } else { 0 });
leaf!(Z, (), |_| (), |_| Some(0), |_| 0);

leaf!(R, Result<u32, String>, |v| if v % 2 == 0 { Ok(v) } else { Err(strv(v)) }, |i| match i { Ok(x) => Some(*x), Err(s) => s.parse().ok() }, |v| if v % 2 == 0 { 4 } else { 7 });
leaf!(
    ARR,
    [Option<u32>; 3],
    |v| if v % 3 == 0 { [None, Some(v), Some(v)] } else { [Some(v), None, Some(v)] },
    |i| i.iter().flatten().next().copied().filter(|x| i.iter().flatten().all(|y| y == x)),
    |_| 8
);
leaf!(BX, Box<u32>, |v| Box::new(v), |i| Some(**i), |_| 4);
leaf!(TUP, (u32, String, u8), |v| (v, strv(v), v as u8), |i| (i.1.parse::<u32>().ok() == Some(i.0)).then_some(i.0), |_| 4 + 7 + 1);


// ---- the library's own container / std implementations (measured, cloned, cast; a smaller
// history depth than the 20 types above) ---------------------------------------------------
use std::collections::{BTreeMap, BTreeSet, HashMap, HashSet, LinkedList, VecDeque};
/// a deque whose ring buffer is wrapped (filled to capacity, two popped at the front, two pushed at the back)
fn wrapped_deque(v: u32) -> VecDeque<u16> {
    let mut d: VecDeque<u16> = VecDeque::with_capacity(4);
    let cap = d.capacity();
    for _ in 0..cap {
        d.push_back(0);
    }
    for _ in 0..2 {
        d.pop_front();
    }
    for x in d.iter_mut() {
        *x = v as u16;
    }
    for _ in 0..2 {
        d.push_back(v as u16);
    }
    assert!(!d.as_slices().1.is_empty(), "harness: the deque is not wrapped");
    d
}
fn deque_len() -> usize {
    VecDeque::<u16>::with_capacity(4).capacity() * 2
}
fn all_eq<'a, I: Iterator<Item = &'a u16>>(mut i: I) -> Option<u32> {
    let f = *i.next()?;
    i.all(|x| *x == f).then_some(u32::from(f))
}
leaf!(DQ, VecDeque<u16>, wrapped_deque, |i| all_eq(i.iter()), |_| deque_len());
leaf!(LL, LinkedList<u16>, |v| (0..3).map(|_| v as u16).collect(), |i| all_eq(i.iter()), |_| 6);
leaf!(BM, BTreeMap<u8, u32>, |v| [(1u8, v), (2u8, v)].into_iter().collect(), |i| i.get(&1).copied().filter(|x| i.get(&2) == Some(x)), |_| 10);
leaf!(HM, HashMap<u8, u32>, |v| [(1u8, v), (2u8, v), (3u8, v)].into_iter().collect(), |i| i.get(&1).copied().filter(|x| i.values().all(|y| y == x)), |_| 15);
leaf!(BS, BTreeSet<u32>, |v| [v, v + 1].into_iter().collect(), |i| i.iter().next().copied(), |_| 8);
leaf!(HS, HashSet<u32>, |v| [v, v + 1, v + 2].into_iter().collect(), |i| i.iter().min().copied(), |_| 12);
leaf!(IP, std::net::IpAddr, |v| if v % 2 == 0 { std::net::IpAddr::V4(std::net::Ipv4Addr::from(v)) } else { std::net::IpAddr::V6(std::net::Ipv6Addr::from(u128::from(v))) }, |i| Some(match i { std::net::IpAddr::V4(a) => u32::from(*a), std::net::IpAddr::V6(a) => u128::from(*a) as u32 }), |v| if v % 2 == 0 { 4 } else { 16 });
leaf!(SA, std::net::SocketAddr, |v| if v % 2 == 0 { std::net::SocketAddr::from((std::net::Ipv4Addr::from(v), 80)) } else { std::net::SocketAddr::from((std::net::Ipv6Addr::from(u128::from(v)), 80)) }, |i| Some(match i.ip() { std::net::IpAddr::V4(a) => u32::from(a), std::net::IpAddr::V6(a) => u128::from(a) as u32 }), |v| if v % 2 == 0 { 6 } else { 18 });
leaf!(DU, Duration, |v| Duration::from_nanos(u64::from(v)), |i| Some(i.as_nanos() as u32), |_| 16);
leaf!(ST, SimTime, |v| SimTime::from_duration(Duration::from_nanos(u64::from(v))), |i| Some(i.as_nanos() as u32), |_| 16);
leaf!(T5, (u8, u16, u32, u64, String), |v| (v as u8, v as u16, v, u64::from(v), strv(v)), |i| (u64::from(i.2) == i.3).then_some(i.2), |_| 1 + 2 + 4 + 8 + 7);
leaf!(PR, (bool, char, u128, &'static str), |v| (v % 2 == 0, 'x', u128::from(v), "abc"), |i| Some(i.2 as u32), |_| 1 + 4 + 16 + 3);
leaf!(VV, Vec<Vec<u16>>, |v| vec![vec![v as u16; 2], vec![], vec![v as u16]], |i| all_eq(i.iter().flatten()), |_| 6);

/// derived tuple struct with three fields
#[derive(Debug, Clone, MessageBody)]
struct T3(A, D, V);
impl Tracked for T3 {
    fn mk(v: u32) -> Self {
        T3(A::mk(v), D::mk(v), V::mk(v))
    }
    fn val(&self) -> Option<u32> {
        let v = self.0.val()?;
        (self.1.val()? == v && self.2.val()? == u32::from(v as u8)).then_some(v)
    }
    fn exp_len(v: u32) -> usize {
        4 + 7 + V::exp_len(v)
    }
    fn leaves(_: u32) -> isize {
        3
    }
}

/// derived generic struct
#[derive(Debug, Clone, MessageBody)]
struct Gn<T: MessageBody> {
    x: T,
    y: A,
}
impl Tracked for Gn<D> {
    fn mk(v: u32) -> Self {
        Gn { x: D::mk(v), y: A::mk(v) }
    }
    fn val(&self) -> Option<u32> {
        let v = self.y.val()?;
        (self.x.val()? == v).then_some(v)
    }
    fn exp_len(_: u32) -> usize {
        7 + 4
    }
    fn leaves(_: u32) -> isize {
        2
    }
}

/// derived enum with four variants (the last one carries three fields)
#[derive(Debug, Clone, MessageBody)]
enum E4 {
    U,
    T(A),
    N { a: A, d: D },
    Last(A, D, V),
}
impl Tracked for E4 {
    fn mk(v: u32) -> Self {
        match v % 4 {
            0 => E4::U,
            1 => E4::T(A::mk(v)),
            2 => E4::N { a: A::mk(v), d: D::mk(v) },
            _ => E4::Last(A::mk(v), D::mk(v), V::mk(v)),
        }
    }
    fn val(&self) -> Option<u32> {
        match self {
            E4::U => Some(0),
            E4::T(a) => a.val(),
            E4::N { a, d } => (a.val()? == d.val()?).then(|| a.0),
            E4::Last(a, d, v) => (a.val()? == d.val()? && v.val()? == u32::from(a.0 as u8)).then(|| a.0),
        }
    }
    fn exp_len(v: u32) -> usize {
        match v % 4 {
            0 => 0,
            1 => 4,
            2 => 4 + 7,
            _ => 4 + 7 + V::exp_len(v),
        }
    }
    fn leaves(v: u32) -> isize {
        (v % 4) as isize
    }
}

/// layout twin of A: a derived newtype
#[derive(Debug, Clone, MessageBody)]
struct W(A);
impl Tracked for W {
    fn mk(v: u32) -> Self {
        W(A::mk(v))
    }
    fn val(&self) -> Option<u32> {
        self.0.val()
    }
    fn exp_len(_: u32) -> usize {
        4
    }
    fn leaves(_: u32) -> isize {
        1
    }
}

#[derive(Debug, Clone, MessageBody)]
struct S {
    a: A,
    d: D,
    z: Z,
}
impl Tracked for S {
    fn mk(v: u32) -> Self {
        S { a: A::mk(v), d: D::mk(v), z: Z::mk(v) }
    }
    fn val(&self) -> Option<u32> {
        let v = self.a.val()?;
        (self.d.val()? == v).then_some(v)
    }
    fn exp_len(_: u32) -> usize {
        4 + 7
    }
    fn leaves(_: u32) -> isize {
        3
    }
}

#[derive(Debug, Clone, MessageBody)]
enum E {
    Unit,
    Tup(A, D),
    Named { a: A, v: V },
}
impl Tracked for E {
    fn mk(v: u32) -> Self {
        match v % 3 {
            0 => E::Unit,
            1 => E::Tup(A::mk(v), D::mk(v)),
            _ => E::Named { a: A::mk(v), v: V::mk(v) },
        }
    }
    fn val(&self) -> Option<u32> {
        match self {
            E::Unit => Some(0),
            E::Tup(a, d) => (a.val()? == d.val()?).then(|| a.0),
            E::Named { a, v } => (v.val()? == (a.0 as u8) as u32).then(|| a.0),
        }
    }
    fn exp_len(v: u32) -> usize {
        match v % 3 {
            0 => 0,
            1 => 4 + 7,
            _ => 4 + (v % 5) as usize + 1,
        }
    }
    fn leaves(v: u32) -> isize {
        match v % 3 {
            0 => 0,
            _ => 2,
        }
    }
}

#[derive(Debug, Clone, MessageBody)]
struct NN {
    s: S,
    e: E,
    o: O,
}
impl Tracked for NN {
    fn mk(v: u32) -> Self {
        NN { s: S::mk(v), e: E::mk(v), o: O::mk(v) }
    }
    fn val(&self) -> Option<u32> {
        let v = self.s.val()?;
        let ev = self.e.val()?;
        let _ = self.o.val()?;
        (v % 3 == 0 || ev == v).then_some(v)
    }
    fn exp_len(v: u32) -> usize {
        S::exp_len(v) + E::exp_len(v) + O::exp_len(v)
    }
    fn leaves(v: u32) -> isize {
        3 + E::leaves(v) + 1
    }
}

/// not Clone
#[derive(Debug)]
struct NC(u32);
impl Drop for NC {
    fn drop(&mut self) {
        LIVE.fetch_sub(1, SeqCst);
    }
}
impl MessageBody for NC {
    fn byte_len(&self) -> usize {
        9
    }
}
impl Tracked for NC {
    fn mk(v: u32) -> Self {
        LIVE.fetch_add(1, SeqCst);
        NC(v)
    }
    fn val(&self) -> Option<u32> {
        Some(self.0)
    }
    fn exp_len(_: u32) -> usize {
        9
    }
    fn leaves(_: u32) -> isize {
        1
    }
}

struct TyOps {
    name: &'static str,
    set: fn(&mut Message, u32),
    cast: fn(Message) -> Result<Option<u32>, Message>,
    content: fn(&Message) -> Option<Option<u32>>,
    can: fn(&Message) -> bool,
    exp_len: fn(u32) -> usize,
    leaves: fn(u32) -> isize,
    /// value as read back for a stored v (types that do not store v fully)
    readback: fn(u32) -> u32,
    clonable: bool,
}

fn ops_clonable<T: Tracked + Clone>(name: &'static str, readback: fn(u32) -> u32) -> TyOps {
    TyOps {
        name,
        // the three ways of storing a clonable value, in turn
        set: |m, v| {
            match v % 5 {
                4 => {
                    // taken apart and put together again
                    let id = m.header().id;
                    *m = Message::from_parts(des::net::message::Header::default(), Some(T::mk(v))).id(id);
                }
                0 => m.set_content(T::mk(v)),
                1 => m.set_body(des::net::message::Body::new(T::mk(v))),
                2 => m.set_body(des::net::message::Body::new_with_len(T::mk(v), T::exp_len(v))),
                _ => {
                    let old = std::mem::take(m);
                    *m = old.with_content(T::mk(v));
                }
            }
            // the mutable accessors see the value that was just stored
            assert!(m.try_content_mut::<T>().is_some_and(|c| c.val().is_some()), "try_content_mut::<T>() right after storing a T");
            assert!(m.content_mut::<T>().val().is_some());
        },
        // try_cast decides; when it would succeed, the panicking `cast` must agree
        cast: |m| {
            if m.can_cast::<T>() && m.header().id % 2 == 1 {
                let (t, _h) = m.cast::<T>();
                Ok(t.val())
            } else {
                m.try_cast::<T>().map(|(t, _h)| t.val())
            }
        },
        content: |m| {
            let a = m.try_content::<T>().map(Tracked::val);
            if a.is_some() {
                // the panicking accessor agrees with the checked one
                assert_eq!(Some(m.content::<T>().val()), a, "content::<T>() and try_content::<T>() disagree");
            }
            a
        },
        can: |m| m.can_cast::<T>(),
        exp_len: T::exp_len,
        leaves: T::leaves,
        readback,
        clonable: true,
    }
}
fn ops_nc() -> TyOps {
    TyOps {
        name: "NC",
        set: |m, v| m.set_content_non_clonable(NC::mk(v)),
        cast: |m| m.try_cast::<NC>().map(|(t, _h)| t.val()),
        content: |m| m.try_content::<NC>().map(Tracked::val),
        can: |m| m.can_cast::<NC>(),
        exp_len: NC::exp_len,
        leaves: NC::leaves,
        readback: |v| v,
        clonable: false,
    }
}

/// a type that is only ever stored with the non-debugable flavour (size_of == byte_len == 4)
fn ops_nd<T: Tracked + Clone>(name: &'static str) -> TyOps {
    TyOps {
        name,
        set: |m, v| m.set_content_non_debugable(T::mk(v)),
        cast: |m| m.try_cast::<T>().map(|(t, _h)| t.val()),
        content: |m| m.try_content::<T>().map(Tracked::val),
        can: |m| m.can_cast::<T>(),
        exp_len: T::exp_len,
        leaves: T::leaves,
        readback: |v| v,
        clonable: true,
    }
}
leaf!(ND1, u32, |v| v, |i| Some(*i), |_| 4);
leaf!(ND2, i32, |v| v as i32, |i| Some(*i as u32), |_| 4);

/// two distinct types that share one name (and therefore one `std::any::type_name`)
fn twin_types() -> (TyOps, TyOps) {
    let a = {
        leaf!(Same, u32, |v| v, |i| Some(*i), |_| 4);
        ops_clonable::<Same>("Same#1 (first of two same-named local types)", |v| v)
    };
    let b = {
        leaf!(Same, u32, |v| v, |i| Some(*i), |_| 4);
        ops_clonable::<Same>("Same#2 (second of two same-named local types)", |v| v)
    };
    (a, b)
}

fn types() -> Vec<TyOps> {
    vec![
        ops_clonable::<A>("A(u32)", |v| v),
        ops_clonable::<B>("B(i32)", |v| v),
        ops_clonable::<F>("F(f32)", |v| v),
        ops_clonable::<C>("C([u8;4])", |v| v),
        ops_clonable::<W>("W(A) derived newtype", |v| v),
        ops_clonable::<D>("D(String)", |v| v),
        ops_clonable::<V>("V(Vec<u8>)", |v| u32::from(v as u8)),
        ops_clonable::<O>("O(Option<u32>)", |v| if v % 2 == 1 { v } else { 0 }),
        ops_clonable::<Z>("Z(())", |_| 0),
        ops_clonable::<S>("S derived struct", |v| v),
        ops_clonable::<E>("E derived enum", |v| if v % 3 == 0 { 0 } else { v }),
        ops_clonable::<NN>("NN nested derived", |v| v),
        ops_nc(),
        ops_clonable::<R>("R(Result<u32,String>)", |v| v),
        ops_clonable::<BX>("BX(Box<u32>)", |v| v),
        ops_clonable::<TUP>("TUP((u32,String,u8))", |v| v),
        ops_clonable::<T3>("T3 derived tuple struct", |v| v),
        ops_clonable::<Gn<D>>("Gn<D> derived generic struct", |v| v),
        ops_clonable::<E4>("E4 derived enum, 4 variants", |v| if v % 4 == 0 { 0 } else { v }),
        ops_clonable::<ARR>("ARR([Option<u32>;3])", |v| v),
        // index 20..: container / std implementations
        ops_clonable::<DQ>("DQ(VecDeque<u16>, wrapped ring buffer)", |v| u32::from(v as u16)),
        ops_clonable::<LL>("LL(LinkedList<u16>)", |v| u32::from(v as u16)),
        ops_clonable::<BM>("BM(BTreeMap<u8,u32>)", |v| v),
        ops_clonable::<HM>("HM(HashMap<u8,u32>)", |v| v),
        ops_clonable::<BS>("BS(BTreeSet<u32>)", |v| v),
        ops_clonable::<HS>("HS(HashSet<u32>)", |v| v),
        ops_clonable::<IP>("IP(IpAddr)", |v| v),
        ops_clonable::<SA>("SA(SocketAddr)", |v| v),
        ops_clonable::<DU>("DU(Duration)", |v| v),
        ops_clonable::<ST>("ST(SimTime)", |v| v),
        ops_clonable::<T5>("T5(5-tuple)", |v| v),
        ops_clonable::<PR>("PR((bool,char,u128,&str))", |v| v),
        ops_clonable::<VV>("VV(Vec<Vec<u16>>)", |v| u32::from(v as u16)),
        twin_types().0,
        twin_types().1,
        ops_nd::<ND1>("ND1(u32) stored non-debugable"),
        ops_nd::<ND2>("ND2(i32) stored non-debugable"),
    ]
}

#[derive(Clone, Copy, Debug, PartialEq)]
enum Op {
    Set(usize),
    Clone,
    Cast(usize),
    Content(usize),
    Can(usize),
    DropOne,
}

const CORE: [usize; 9] = [0, 1, 3, 4, 5, 6, 8, 10, 12];

fn all_ops(types: &[usize]) -> Vec<Op> {
    let mut ops = vec![];
    for &t in types {
        ops.push(Op::Set(t));
        ops.push(Op::Cast(t));
        ops.push(Op::Content(t));
        ops.push(Op::Can(t));
    }
    ops.push(Op::Clone);
    ops.push(Op::DropOne);
    ops
}

#[derive(Default)]
struct Facts {
    failed_cast_of_twin: bool,
    clone_then_cast: bool,
    failed_clone: bool,
}

fn run_hist(tys: &[TyOps], hist: &[Op], facts: &mut Facts) -> Result<(), String> {
    LIVE.store(0, SeqCst);
    let mut msgs: Vec<Message> = vec![Message::default()];
    let mut model: Vec<Option<(usize, u32)>> = vec![None];
    let mut ctr = 6u32;
    let mut cloned = false;
    for (oi, op) in hist.iter().enumerate() {
        if msgs.is_empty() {
            msgs.push(Message::default());
            model.push(None);
        }
        let last = msgs.len() - 1;
        match *op {
            Op::Set(t) => {
                ctr += 1;
                (tys[t].set)(&mut msgs[last], ctr);
                model[last] = Some((t, ctr));
            }
            Op::Clone => {
                let c = msgs[last].try_clone();
                let clonable = model[last].is_none_or(|m| tys[m.0].clonable);
                match c {
                    Some(c) => {
                        if !clonable {
                            return Err(format!("op #{oi}: try_clone of a non-clonable body succeeded"));
                        }
                        msgs.push(c);
                        let m = model[last];
                        model.push(m);
                        cloned = true;
                    }
                    None => {
                        if clonable {
                            return Err(format!("op #{oi}: try_clone of a clonable body failed"));
                        }
                        facts.failed_clone = true;
                    }
                }
            }
            Op::Can(t) => {
                let got = (tys[t].can)(&msgs[last]);
                let exp = model[last].map(|m| m.0) == Some(t);
                if got != exp {
                    return Err(format!("op #{oi}: can_cast::<{}> = {got} on a body created as {:?}", tys[t].name, model[last].map(|m| tys[m.0].name)));
                }
            }
            Op::Content(t) => {
                let exp = model[last].filter(|m| m.0 == t).map(|m| (tys[t].readback)(m.1));
                match ((tys[t].content)(&msgs[last]), exp) {
                    (None, None) => {}
                    (Some(Some(g)), Some(e)) if g == e => {}
                    (got, exp) => {
                        return Err(format!(
                            "op #{oi}: try_content::<{}> on a body created as {:?} gave {got:?}, expected {exp:?}",
                            tys[t].name,
                            model[last].map(|m| tys[m.0].name)
                        ))
                    }
                }
            }
            Op::Cast(t) => {
                let m = msgs.pop().unwrap();
                let mm = model.pop().unwrap();
                let exp = mm.filter(|x| x.0 == t).map(|x| (tys[t].readback)(x.1));
                let len_before = m.length();
                match ((tys[t].cast)(m), exp) {
                    (Ok(Some(g)), Some(e)) if g == e => {
                        if cloned {
                            facts.clone_then_cast = true;
                        }
                    }
                    (Ok(g), e) => {
                        return Err(format!(
                            "op #{oi}: try_cast::<{}> on a body created as {:?} returned {g:?}, expected {e:?}",
                            tys[t].name,
                            mm.map(|x| tys[x.0].name)
                        ))
                    }
                    (Err(back), None) => {
                        if back.length() != len_before {
                            return Err(format!("op #{oi}: failed try_cast changed the message length"));
                        }
                        if let Some(x) = mm {
                            if (tys[x.0].exp_len)(x.1) == (tys[t].exp_len)(x.1) && x.0 != t {
                                facts.failed_cast_of_twin = true;
                            }
                        }
                        msgs.push(back);
                        model.push(mm);
                    }
                    (Err(_), Some(_)) => return Err(format!("op #{oi}: try_cast::<{}> failed on a body created as exactly that type", tys[t].name)),
                }
            }
            Op::DropOne => {
                msgs.pop();
                model.pop();
            }
        }
        for (m, mm) in msgs.iter().zip(&model) {
            let bl = mm.map_or(0, |x| (tys[x.0].exp_len)(x.1));
            if m.length() != 64 + bl {
                return Err(format!(
                    "after op #{oi} {op:?}: length() = {} for a body {:?}, expected 64 + {bl}",
                    m.length(),
                    mm.map(|x| tys[x.0].name)
                ));
            }
            // the message returned by a failed cast must still hold the original value
            if let Some(x) = mm {
                match (tys[x.0].content)(m) {
                    Some(Some(g)) if g == (tys[x.0].readback)(x.1) => {}
                    other => return Err(format!("after op #{oi} {op:?}: message created as {} reads back {other:?}", tys[x.0].name)),
                }
            }
        }
        let exp_live: isize = model.iter().flatten().map(|m| (tys[m.0].leaves)(m.1)).sum();
        if LIVE.load(SeqCst) != exp_live {
            return Err(format!("after op #{oi} {op:?}: {} stored values alive, expected {exp_live} (a value was dropped twice or leaked)", LIVE.load(SeqCst)));
        }
    }
    drop(msgs);
    if LIVE.load(SeqCst) != 0 {
        return Err(format!("after dropping every message {} stored values are still alive", LIVE.load(SeqCst)));
    }
    Ok(())
}

// ---- length is what channels charge for ------------------------------------------------

struct Sender {
    ty: usize,
}
impl Module for Sender {
    fn at_sim_start(&mut self, _: usize) {
        let mut m = Message::default();
        (types()[self.ty].set)(&mut m, 7);
        send(m, "out");
    }
}
struct Receiver {
    at: Arc<Mutex<Option<(u128, usize)>>>,
}
impl Module for Receiver {
    fn handle_message(&mut self, m: Message) {
        *self.at.lock().unwrap() = Some((SimTime::now().as_nanos(), m.length()));
    }
}

fn channel_charge(ty: usize) -> Result<(), String> {
    let tys = types();
    let exp_len = 64 + (tys[ty].exp_len)(7);
    let r = quiet_catch(move || {
        let at: Arc<Mutex<Option<(u128, usize)>>> = Default::default();
        let mut sim = Sim::new(());
        sim.node("tx", Sender { ty });
        sim.node("rx", Receiver { at: at.clone() });
        // 8000 bit/s: one byte takes exactly 1 ms
        let ch = Channel::new(ChannelMetrics::new(8000, Duration::ZERO, Duration::ZERO, ChannelDropBehaviour::Drop));
        sim.gate("tx", "out").connect(sim.gate("rx", "in"), Some(ch));
        let _ = Builder::seeded(1).quiet().build(sim.freeze()).run();
        let v = *at.lock().unwrap();
        v
    })?;
    let Some((t, len)) = r else {
        return Err(format!("message with body {} never arrived", tys[ty].name));
    };
    if len != exp_len {
        return Err(format!("received message with body {} reports length {len}, expected {exp_len}", tys[ty].name));
    }
    if t != exp_len as u128 * 1_000_000 {
        return Err(format!("channel at 8000 bit/s delivered a message of length {exp_len} B (body {}) after {t}ns, expected {}ns", tys[ty].name, exp_len as u128 * 1_000_000));
    }
    LIVE.store(0, SeqCst);
    // admission to a bounded queue of a busy channel charges the same length: a second message
    // fits iff the limit is at least its length
    for fits in [false, true] {
        let limit = if fits { exp_len } else { exp_len - 1 };
        let got = quiet_catch(move || {
            let log: Arc<Mutex<Vec<u128>>> = Default::default();
            let mut sim = Sim::new(());
            sim.node("tx", Sender2 { ty });
            sim.node("rx", Receiver2 { log: log.clone() });
            let ch = Channel::new(ChannelMetrics::new(8000, Duration::ZERO, Duration::ZERO, ChannelDropBehaviour::Queue(Some(limit))));
            sim.gate("tx", "out").connect(sim.gate("rx", "in"), Some(ch));
            let _ = Builder::seeded(1).quiet().build(sim.freeze()).run();
            let v = log.lock().unwrap().clone();
            v
        })?;
        let unit = exp_len as u128 * 1_000_000;
        let exp = if fits { vec![unit, 2 * unit] } else { vec![unit] };
        if got != exp {
            return Err(format!(
                "busy channel at 8000 bit/s with a queue limit of {limit} B, second message of length {exp_len} B (body {}): arrivals at {got:?}ns, expected {exp:?}ns",
                tys[ty].name
            ));
        }
        LIVE.store(0, SeqCst);
    }
    Ok(())
}

struct Sender2 {
    ty: usize,
}
impl Module for Sender2 {
    fn at_sim_start(&mut self, _: usize) {
        for _ in 0..2 {
            let mut m = Message::default();
            (types()[self.ty].set)(&mut m, 7);
            send(m, "out");
        }
    }
}
struct Receiver2 {
    log: Arc<Mutex<Vec<u128>>>,
}
impl Module for Receiver2 {
    fn handle_message(&mut self, _: Message) {
        self.log.lock().unwrap().push(SimTime::now().as_nanos());
    }
}

fn hist_json(tys: &[TyOps], h: &[Op]) -> Value {
    json!({"ops": h.iter().map(|o| match o {
        Op::Set(t) => json!(["set", t, tys[*t].name]),
        Op::Cast(t) => json!(["try_cast", t, tys[*t].name]),
        Op::Content(t) => json!(["try_content", t, tys[*t].name]),
        Op::Can(t) => json!(["can_cast", t, tys[*t].name]),
        Op::Clone => json!(["try_clone"]),
        Op::DropOne => json!(["drop"]),
    }).collect::<Vec<_>>()})
}

impl Property for C16 {
    fn id(&self) -> &'static str {
        "C16"
    }
    fn rule(&self, tier: Tier) -> String {
        format!(
            "every history of exactly {} operations over 20 body types (82 ops), of exactly {} operations over 9 core types (38 ops) and of exactly {} operations over 13 container / std types and two distinct types with one and the same type name and two types stored with the non-debugable flavour (70 ops: a VecDeque with a wrapped ring buffer, LinkedList, BTreeMap, HashMap, BTreeSet, HashSet, IpAddr and SocketAddr in both variants, Duration, SimTime, a 5-tuple, (bool,char,u128,&str), Vec<Vec<u16>>) (every shorter history is a checked prefix), on a stack of messages, ops = {{set_content(T), try_cast<T>, try_content<T>, can_cast<T> per type, try_clone, drop}}; \
             types: u32 / i32 / f32 / [u8;4] / derived newtype (layout twins), String, Vec<u8>, Option<u32>, (), derived struct, derived enum (unit/tuple/named variants), nested derived struct, a non-Clone type, Result, Box, tuple, derived tuple struct with 3 fields, derived generic struct, derived enum with 4 variants, an array of options with unequal element lengths; \
             oracle: typed-value model (cast/borrow succeeds iff same type and yields the stored value; failure returns the message intact), live-object counter after every op and after dropping everything, \
             length() == 64 + independently computed byte length; plus one 2-module simulation per type checking arrival time == length*8/bitrate; \
             non-trivial = history containing a failed cast between layout twins, a cast after a clone, or a refused clone",
            tier.pick(4, 5),
            tier.pick(5, 6),
            tier.pick(3, 4)
        )
    }
    fn assumptions(&self) -> Vec<String> {
        vec!["mutation through content_mut (which can change a body's length after it was measured) is outside the stated alphabet".into()]
    }
    fn required_features(&self, _tier: Tier) -> Vec<&'static str> {
        vec!["failed_cast_between_layout_twins", "cast_after_clone", "refused_clone_of_non_clonable", "channel_charge_runs"]
    }
    fn crash_is_violation(&self) -> bool {
        true
    }
    fn explore(&self, ctx: &mut Ctx) {
        let tys = types();
        let everything: Vec<usize> = (0..20).collect();
        let containers: Vec<usize> = (20..tys.len()).collect();
        // (type subset, depth): the 20 main types at the smaller depth, the core types one level deeper, the container types at depth 3 / 4
        let plans: Vec<(Vec<usize>, usize)> = vec![(everything, ctx.tier.pick(4, 5)), (CORE.to_vec(), ctx.tier.pick(5, 6)), (containers, ctx.tier.pick(3, 4))];
        if ctx.is_first_shard() {
            for t in 0..tys.len() {
                ctx.out.evaluations += 1;
                ctx.hit("channel_charge_runs");
                if let Err(d) = channel_charge(t) {
                    ctx.violation("violation", || json!({"channel_charge_for_type": t, "name": tys[t].name}), d);
                }
            }
        }
        for (subset, depth) in plans {
        let ops = all_ops(&subset);
        let mut idx = vec![0usize; depth];
        'hist: loop {
            // shard on the first two ops
            if ctx.mine_key((idx[0] * ops.len() + idx[1]) as u64) {
                let hist: Vec<Op> = idx.iter().map(|&i| ops[i]).collect();
                let mut f = Facts::default();
                ctx.out.evaluations += 1;
                ctx.out.traces += 1;
                ctx.out.states += 1;
                ctx.out.transitions += depth as u64;
                ctx.begin(|| hist_json(&tys, &hist));
                match run_hist(&tys, &hist, &mut f) {
                    Ok(()) => {
                        if f.failed_cast_of_twin {
                            ctx.hit("failed_cast_between_layout_twins");
                        }
                        if f.clone_then_cast {
                            ctx.hit("cast_after_clone");
                        }
                        if f.failed_clone {
                            ctx.hit("refused_clone_of_non_clonable");
                        }
                        if f.failed_cast_of_twin || f.clone_then_cast || f.failed_clone {
                            ctx.out.nontrivial += 1;
                            if f.failed_cast_of_twin && f.clone_then_cast {
                                ctx.sample(|| hist_json(&tys, &hist));
                            }
                        }
                        ctx.outcome(vcheck::fp(&(f.failed_cast_of_twin, f.clone_then_cast, f.failed_clone, idx[0], idx[1])));
                    }
                    Err(d) => ctx.violation("violation", || hist_json(&tys, &hist), d),
                }
            }
            let mut i = depth;
            loop {
                if i == 0 {
                    break 'hist;
                }
                i -= 1;
                idx[i] += 1;
                if idx[i] < ops.len() {
                    break;
                }
                idx[i] = 0;
            }
        }
        }
    }
    fn replay(&self, case: &Value) -> Result<(), String> {
        let tys = types();
        if let Some(t) = case.get("channel_charge_for_type") {
            return channel_charge(t.as_u64().unwrap() as usize);
        }
        let hist: Vec<Op> = case["ops"]
            .as_array()
            .unwrap()
            .iter()
            .map(|o| {
                let t = o.get(1).and_then(Value::as_u64).unwrap_or(0) as usize;
                match o[0].as_str().unwrap() {
                    "set" => Op::Set(t),
                    "try_cast" => Op::Cast(t),
                    "try_content" => Op::Content(t),
                    "can_cast" => Op::Can(t),
                    "try_clone" => Op::Clone,
                    _ => Op::DropOne,
                }
            })
            .collect();
        run_hist(&tys, &hist, &mut Facts::default())
    }
}

fn main() {
    run_property(&C16);
}
