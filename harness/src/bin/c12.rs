//! C12 — start-up and tear-down callbacks run once, stage by stage, in module-tree order.
//! Complete enumeration of rooted forests x valid builder insertion orders x per-module
//! stage counts on a real `Sim`; plus rejection of duplicate paths and orphan nodes.

use des::prelude::*;
use std::sync::{Arc, Mutex};
use vcheck::{json, quiet_catch, run_property, Ctx, Property, Tier, Value};

// ---- start stages of modules created from an NDL description --------------------------------

struct Stg {
    log: Log,
    stages: usize,
}
impl Module for Stg {
    fn num_sim_start_stages(&self) -> usize {
        self.stages
    }
    fn at_sim_start(&mut self, st: usize) {
        self.log.lock().unwrap().push(format!("start:{}:{st}", current().path()));
    }
}
/// A module created from an NDL description declares more start stages than every module
/// created with `node`: all of its stages run, stage by stage over the whole tree.
fn ndl_stages(deep: usize, plain: usize) -> Result<u64, String> {
    use des::net::ndl::{Def, Registry};
    let got = quiet_catch(move || -> Result<Vec<String>, String> {
        let log: Log = Default::default();
        let doc = "entry: Main\nmodules:\n  Main:\n    submodules:\n      d: Deep\n  Deep:\n    gates:\n    - g\n";
        let def: Def = serde_yml::from_str(doc).map_err(|e| e.to_string())?;
        let (l1, l2) = (log.clone(), log.clone());
        let reg = Registry::new().symbol_fn("Main", move |_| Stg { log: l1.clone(), stages: 1 }).symbol_fn("Deep", move |_| Stg { log: l2.clone(), stages: deep });
        let mut sim = Sim::new(());
        sim.node("plain", Stg { log: log.clone(), stages: plain });
        sim.node("net", des::net::ndl::Ndl::new(&mut { reg }, &def).map_err(|e| e.to_string())?).map_err(|e| e.to_string())?;
        let r = Builder::seeded(1).quiet().build(sim.freeze()).run();
        drop(r);
        let g = log.lock().unwrap().clone();
        Ok(g)
    })
    .map_err(|m| format!("panicked: {m}"))??;
    let mut exp = vec![];
    for st in 0..3 {
        for (path, n) in [("plain", plain), ("net", 1), ("net.d", deep)] {
            if st < n {
                exp.push(format!("start:{path}:{st}"));
            }
        }
    }
    if got != exp {
        return Err(format!("NDL-built module net.d with {deep} start stages next to a node()-built module with {plain}: start log {got:?}, expected {exp:?}"));
    }
    Ok(vcheck::fp(&got))
}

struct C12;

type Log = Arc<Mutex<Vec<String>>>;

struct Node {
    path: String,
    log: Log,
    stages: usize,
    children: Vec<String>,
    /// path -> id the module at that path saw for itself in its first start stage
    ids: Ids,
    /// this module's at_sim_end reports an error
    fail_end: bool,
    /// this module shuts itself down when its self message arrives (it is torn down all the same)
    goes_down: bool,
}
type Ids = Arc<Mutex<std::collections::BTreeMap<String, String>>>;
impl Module for Node {
    fn num_sim_start_stages(&self) -> usize {
        self.stages
    }
    fn at_sim_start(&mut self, st: usize) {
        self.log.lock().unwrap().push(format!("start:{}:{}", self.path, st));
        if st == 0 {
            if self.ids.lock().unwrap().get(&self.path) != Some(&format!("{:?}", current().id())) {
                self.log.lock().unwrap().push(format!("start:{}:has-another-id-than-the-declared-module", self.path));
            }
            // keeps the simulation busy so that "after the last event" is observable
            schedule_in(Message::default().kind(1), Duration::from_secs(1 + self.path.len() as u64));
        }
    }
    fn handle_message(&mut self, _: Message) {
        self.log.lock().unwrap().push(format!("event:{}", self.path));
        if self.goes_down {
            current().shutdown();
        }
    }
    fn at_sim_end(&mut self) -> Result<(), RuntimeError> {
        let me = current();
        let exp_parent = self.path.rsplit_once('.').map(|p| p.0.to_string());
        let ids = self.ids.lock().unwrap().clone();
        let same = |m: &ModuleRef, path: &str| m.path().as_str() == path && ids.get(path) == Some(&format!("{:?}", m.id()));
        let parent_ok = match &exp_parent {
            Some(p) => me.parent().map(|m| same(&m, p)).unwrap_or(false),
            None => me.parent().is_err(),
        };
        let children_ok = self.children.iter().all(|c| {
            let name = c.rsplit_once('.').map_or(c.as_str(), |x| x.1);
            me.child(name).map(|m| same(&m, c)).unwrap_or(false)
        }) && me.child("no-such-child").is_err();
        // a module finds itself through its parent
        let self_ok = me.parent().map_or(true, |p| p.child(&me.name()).map(|m| same(&m, &self.path)).unwrap_or(false));
        let name_ok = self_ok && me.name() == self.path.rsplit_once('.').map_or(self.path.as_str(), |x| x.1);
        self.log.lock().unwrap().push(format!(
            "end:{}:parent_ok={parent_ok}:children_ok={children_ok}:path_ok={}:name_ok={name_ok}",
            self.path,
            me.path().as_str() == self.path
        ));
        if self.fail_end {
            return Err(RuntimeError::from(std::io::Error::other("this module reports a failed run")));
        }
        Ok(())
    }
}

fn perms(n: usize) -> Vec<Vec<usize>> {
    if n == 0 {
        return vec![vec![]];
    }
    let mut out = vec![];
    for p in perms(n - 1) {
        for i in 0..=p.len() {
            let mut q = p.clone();
            q.insert(i, n - 1);
            out.push(q);
        }
    }
    out
}

/// names chosen so that siblings and parent/child names share textual prefixes
const NAMES: [&str; 6] = ["a", "ab", "bü", "a1", "abc", "c"];

#[derive(Clone, Debug)]
struct Case {
    /// parent[i] = None (root level) or Some(j), j < i
    parent: Vec<Option<usize>>,
    /// builder insertion order
    order: Vec<usize>,
    /// number of start stages per node (0..=3)
    stages: Vec<usize>,
    /// after every insertion every path inserted so far is offered again, and an orphan is
    /// offered; each offer must be rejected and must leave the builder as it was
    offers: bool,
    /// node whose at_sim_end returns an error (every other module is torn down all the same)
    fail_end: Option<usize>,
    /// every top-level subtree is created by one ModuleBlock through the scoped builder (root
    /// via `root`, descendants via `node` with relative paths), in the order they have in `order`
    via_block: bool,
    /// node that shuts itself down during the run
    goes_down: Option<usize>,
}

/// a module block that creates a whole subtree through the scoped builder
struct Subtree {
    root: Node,
    /// (path relative to the root, module) in creation order
    rest: Vec<(String, Node)>,
}
impl des::net::blocks::ModuleBlock for Subtree {
    type Ret = usize;
    fn build<A>(self, mut sim: des::net::SimBuilderScoped<'_, A>) -> usize {
        let n = self.rest.len();
        sim.root(self.root);
        for (rel, node) in self.rest {
            sim.node(rel.as_str(), node);
        }
        n + 1
    }
}

fn paths(parent: &[Option<usize>]) -> Vec<String> {
    let mut p: Vec<String> = vec![];
    for i in 0..parent.len() {
        p.push(match parent[i] {
            None => NAMES[i].to_string(),
            Some(j) => format!("{}.{}", p[j], NAMES[i]),
        });
    }
    p
}

fn case_json(c: &Case) -> Value {
    json!({"parent": c.parent, "paths": paths(&c.parent), "insertion_order": c.order, "stages": c.stages, "rejected_offers_in_between": c.offers, "at_sim_end_fails_in": c.fail_end, "subtrees_created_by_module_blocks": c.via_block, "shuts_down_during_the_run": c.goes_down})
}
fn case_from(v: &Value) -> Case {
    Case {
        parent: v["parent"].as_array().unwrap().iter().map(|p| p.as_u64().map(|x| x as usize)).collect(),
        order: v["insertion_order"].as_array().unwrap().iter().map(|p| p.as_u64().unwrap() as usize).collect(),
        stages: v["stages"].as_array().unwrap().iter().map(|p| p.as_u64().unwrap() as usize).collect(),
        offers: v["rejected_offers_in_between"].as_bool().unwrap_or(false),
        fail_end: v["at_sim_end_fails_in"].as_u64().map(|x| x as usize),
        via_block: v["subtrees_created_by_module_blocks"].as_bool().unwrap_or(false),
        goes_down: v["shuts_down_during_the_run"].as_u64().map(|x| x as usize),
    }
}

fn run_case(c: &Case) -> Result<u64, String> {
    let c = c.clone();
    quiet_catch(move || run_inner(&c)).map_err(|m| format!("panicked: {m}"))?
}

fn run_inner(c: &Case) -> Result<u64, String> {
    if c.via_block {
        return run_blocks(c);
    }
    run_plain(c)
}

/// the same declaration, every top-level subtree created by one module block: the creation order
/// becomes "root, then its descendants in their relative order", which is what the expectation uses
fn run_blocks(c: &Case) -> Result<u64, String> {
    let n = c.parent.len();
    let root_of = |mut i: usize| {
        while let Some(p) = c.parent[i] {
            i = p;
        }
        i
    };
    let mut eff: Vec<usize> = vec![];
    for &i in &c.order {
        if c.parent[i].is_none() {
            eff.push(i);
            eff.extend(c.order.iter().copied().filter(|&k| k != i && root_of(k) == i));
        }
    }
    debug_assert_eq!(eff.len(), n);
    let mut c2 = c.clone();
    c2.order = eff;
    c2.via_block = false;
    BLOCKS.with(|b| b.set(true));
    let r = run_plain(&c2);
    BLOCKS.with(|b| b.set(false));
    r
}
thread_local! {
    static BLOCKS: std::cell::Cell<bool> = const { std::cell::Cell::new(false) };
}

fn run_plain(c: &Case) -> Result<u64, String> {
    let n = c.parent.len();
    let ps = paths(&c.parent);
    let log: Log = Default::default();
    let ids: Ids = Default::default();
    let mut sim = Sim::new(());
    let blocks = BLOCKS.with(|b| b.get());
    let mk_node = |i: usize| {
        let children: Vec<String> = (0..n).filter(|&k| c.parent[k] == Some(i)).map(|k| ps[k].clone()).collect();
        Node { path: ps[i].clone(), log: log.clone(), stages: c.stages[i], children, ids: ids.clone(), fail_end: c.fail_end == Some(i), goes_down: c.goes_down == Some(i) }
    };
    if blocks {
        let root_of = |mut i: usize| {
            while let Some(p) = c.parent[i] {
                i = p;
            }
            i
        };
        for &r in c.order.iter().filter(|&&i| c.parent[i].is_none()) {
            let rest: Vec<(String, Node)> = c.order.iter().copied().filter(|&k| k != r && root_of(k) == r).map(|k| (ps[k][ps[r].len() + 1..].to_string(), mk_node(k))).collect();
            let expect = rest.len() + 1;
            let made = sim.node(ps[r].as_str(), Subtree { root: mk_node(r), rest });
            if made != expect {
                return Err("machinery: module block built a different number of nodes".into());
            }
        }
    }
    for (k, &i) in c.order.iter().enumerate() {
        if blocks {
            break;
        }
        sim.node(ps[i].as_str(), mk_node(i));
        if c.offers {
            let junk: Log = Default::default();
            let mut offer = |p: String| -> bool {
                let nd = Node { path: format!("offered:{p}"), log: junk.clone(), stages: 1, children: vec![], ids: Default::default(), fail_end: false, goes_down: false };
                std::panic::catch_unwind(std::panic::AssertUnwindSafe(|| {
                    sim.node(p.as_str(), nd);
                }))
                .is_ok()
            };
            for &j in &c.order[..=k] {
                if offer(ps[j].clone()) {
                    return Err(format!("the duplicate path '{}' was accepted by the builder", ps[j]));
                }
            }
            if offer(format!("{}.zz.q", ps[i])) {
                return Err(format!("the node '{}.zz.q', whose parent does not exist, was accepted by the builder", ps[i]));
            }
        }
    }
    // the declared modules, as the builder knows them
    for p in &ps {
        let id = sim.get(&p.as_str().into()).map(|m| format!("{:?}", m.id())).ok_or(format!("builder lookup of '{p}' failed"))?;
        ids.lock().unwrap().insert(p.clone(), id);
    }
    let r = Builder::seeded(1).quiet().build(sim.freeze()).run();
    if r.is_err() != c.fail_end.is_some() {
        return Err(format!("run returned {} although {}", if r.is_err() { "an error" } else { "Ok" }, if c.fail_end.is_some() { "a module's at_sim_end reported one" } else { "no module reported one" }));
    }
    // expected: depth-first pre-order, siblings in creation (= insertion) order
    fn dfs(i: usize, par: &[Option<usize>], order: &[usize], out: &mut Vec<usize>) {
        out.push(i);
        for &k in order {
            if par[k] == Some(i) {
                dfs(k, par, order, out);
            }
        }
    }
    let mut pre = vec![];
    for &r in &c.order {
        if c.parent[r].is_none() {
            dfs(r, &c.parent, &c.order, &mut pre);
        }
    }
    let mut exp = vec![];
    for st in 0..3 {
        for &i in &pre {
            if st < c.stages[i] {
                exp.push(format!("start:{}:{}", ps[i], st));
            }
        }
    }
    let got = log.lock().unwrap().clone();
    let gs: Vec<String> = got.iter().filter(|s| s.starts_with("start")).cloned().collect();
    if gs != exp {
        return Err(format!("tree {ps:?} inserted in order {:?} with stages {:?}: at_sim_start calls {gs:?}, expected {exp:?}", c.order, c.stages));
    }
    let mut ge: Vec<String> = got.iter().filter(|s| s.starts_with("end")).cloned().collect();
    let mut ee: Vec<String> = (0..n).map(|i| format!("end:{}:parent_ok=true:children_ok=true:path_ok=true:name_ok=true", ps[i])).collect();
    if c.goes_down.is_some() {
        // relatives of a module that is down cannot be looked up; only "exactly once per module" is compared
        let strip = |v: &mut Vec<String>| {
            for e in v.iter_mut() {
                *e = e.split(":parent_ok=").next().unwrap().to_string();
            }
        };
        strip(&mut ge);
        strip(&mut ee);
    }
    ge.sort();
    ee.sort();
    if ge != ee {
        return Err(format!("tree {ps:?}: at_sim_end log {ge:?}, expected exactly once per module with matching parent/child/path/name lookups {ee:?}"));
    }
    let first_end = got.iter().position(|s| s.starts_with("end")).unwrap_or(got.len());
    if got[first_end..].iter().any(|s| !s.starts_with("end")) || got[..first_end].iter().filter(|s| s.starts_with("event")).count() != c.stages.iter().filter(|s| **s > 0).count() {
        return Err(format!("tree {ps:?}: at_sim_end must run after the last event; log {got:?}"));
    }
    let first_event = got.iter().position(|s| s.starts_with("event")).unwrap_or(got.len());
    if got[first_event..].iter().any(|s| s.starts_with("start")) {
        return Err(format!("tree {ps:?}: a start stage ran after the first event; log {got:?}"));
    }
    Ok(vcheck::fp(&gs))
}

/// builder rejections: kind 0 = duplicate path at depth d, kind 1 = node whose parent is missing
fn rejection(kind: u8, depth: usize) -> Result<(), String> {
    let mk = |p: &str| Node { path: p.into(), log: Default::default(), stages: 1, children: vec![], ids: Default::default(), fail_end: false, goes_down: false };
    let chain: Vec<String> = (0..depth).map(|d| NAMES[..=d].join(".")).collect();
    let accepted = std::sync::Arc::new(Mutex::new(false));
    let acc = accepted.clone();
    let _ = quiet_catch(move || {
        let mut sim = Sim::new(());
        for p in &chain[..depth - 1] {
            sim.node(p.as_str(), mk(p));
        }
        let last = chain[depth - 1].clone();
        if kind == 0 {
            sim.node(last.as_str(), mk(&last));
            sim.node(last.as_str(), mk(&last));
        } else {
            // parent of `last.x` is `last`, which was never inserted
            let orphan = format!("{last}.x");
            sim.node(orphan.as_str(), mk(&orphan));
        }
        *acc.lock().unwrap() = true;
    });
    let a = *accepted.lock().unwrap();
    if a {
        Err(format!("{} at depth {depth} was accepted by the builder", if kind == 0 { "a duplicate path" } else { "a node whose parent does not exist" }))
    } else {
        Ok(())
    }
}

impl Property for C12 {
    fn id(&self) -> &'static str {
        "C12"
    }
    fn rule(&self, tier: Tier) -> String {
        format!(
            "every rooted forest with 1..={} nodes (names a, ab, bü, a1, abc, c: prefix-sharing siblings and parent/child names, one of them with a multi-byte character) x every linear extension of parent-before-child as insertion order x every assignment of 0..3 start stages (a module declaring none is never started; for up to {} nodes; larger trees: all assignments with at most 2 nodes deviating from 1 stage); \
             oracle: at_sim_start log == stage-major, depth-first pre-order with siblings in creation order, exactly once per declared stage, all before the first event; at_sim_end exactly once per module after the last event; parent()/child()/path()/name() agree with the declared tree, and the module a lookup returns is the declared one (same id as that module sees for itself); \
             duplicate path and missing parent rejected at depths 1..3; start stages of a module built from an NDL description next to a node()-built module (7 combinations of stage counts); per (forest, insertion order) one more run in which, after every insertion, every path inserted so far and an orphan are offered again: each offer must be rejected and the run must be unchanged; one run in which every top-level subtree is created by a ModuleBlock through the scoped builder (root / node with relative paths); one run in which one module shuts itself down during the run (it still gets its at_sim_end); and one run in which one module's at_sim_end returns an error: run() reports it and every module is still torn down exactly once; non-trivial = forest with at least 3 nodes",
            tier.pick(5, 6),
            tier.pick(4, 4)
        )
    }
    fn assumptions(&self) -> Vec<String> {
        vec!["modules are created through the simulation builder (Sim::node); NDL-built trees are C18's subject".into()]
    }
    fn required_features(&self, _tier: Tier) -> Vec<&'static str> {
        vec!["interleaved_children_of_different_parents", "multi_stage_module", "depth_three_tree", "builder_rejections", "several_roots", "rejected_offers_between_insertions", "tear_down_reporting_an_error", "module_without_start_stage", "subtrees_created_by_module_blocks", "start_stages_of_ndl_built_modules", "module_down_at_the_end_of_the_run"]
    }
    fn explore(&self, ctx: &mut Ctx) {
        if ctx.is_first_shard() {
            for (deep, plain) in [(1usize, 1usize), (2, 1), (3, 1), (3, 2), (2, 3), (0, 1), (3, 0)] {
                ctx.out.evaluations += 1;
                ctx.hit("start_stages_of_ndl_built_modules");
                match ndl_stages(deep, plain) {
                    Ok(o) => ctx.outcome(o),
                    Err(d) => ctx.violation("violation", || json!({"ndl_stages": [deep, plain]}), d),
                }
            }
            for kind in 0..2u8 {
                for depth in 1..=3 {
                    ctx.out.evaluations += 1;
                    ctx.hit("builder_rejections");
                    if let Err(d) = rejection(kind, depth) {
                        ctx.violation("violation", || json!({"rejection_kind": kind, "depth": depth}), d);
                    }
                }
            }
        }
        let maxn = ctx.tier.pick(5, 6);
        for n in 1..=maxn {
            let mut parents: Vec<Vec<Option<usize>>> = vec![vec![]];
            for i in 0..n {
                let mut next = vec![];
                for p in &parents {
                    for c in 0..=i {
                        let mut q = p.clone();
                        q.push(if c == i { None } else { Some(c) });
                        next.push(q);
                    }
                }
                parents = next;
            }
            // stage assignments
            let mut stage_sets: Vec<Vec<usize>> = vec![];
            if n <= 4 {
                for code in 0..4usize.pow(n as u32) {
                    let mut c = code;
                    stage_sets.push((0..n).map(|_| { let s = [1, 2, 3, 0][c % 4]; c /= 4; s }).collect());
                }
            } else {
                stage_sets.push(vec![1; n]);
                for i in 0..n {
                    for si in [0, 2, 3] {
                        let mut s = vec![1; n];
                        s[i] = si;
                        stage_sets.push(s.clone());
                        for j in (i + 1)..n {
                            for sj in [0, 2, 3] {
                                let mut s2 = s.clone();
                                s2[j] = sj;
                                stage_sets.push(s2);
                            }
                        }
                    }
                }
            }
            for par in &parents {
                let depth3 = (0..n).any(|i| par[i].and_then(|p| par[p]).is_some());
                let roots = par.iter().filter(|p| p.is_none()).count();
                for perm in perms(n) {
                    let pos: Vec<usize> = {
                        let mut v = vec![0; n];
                        for (k, &x) in perm.iter().enumerate() {
                            v[x] = k;
                        }
                        v
                    };
                    if (0..n).any(|i| par[i].is_some_and(|p| pos[p] > pos[i])) {
                        continue;
                    }
                    // children of different parents interleaved in the insertion order
                    let interleaved = perm.windows(3).any(|w| par[w[0]].is_some() && par[w[0]] == par[w[2]] && par[w[1]] != par[w[0]] && par[w[1]].is_some());
                    for (si, stages) in stage_sets.iter().enumerate().flat_map(|(i, s)| if i == 0 { vec![(0usize, s), (usize::MAX, s), (usize::MAX - 1, s), (usize::MAX - 2, s), (usize::MAX - 3, s)] } else { vec![(i, s)] }) {
                        if !ctx.mine() {
                            continue;
                        }
                        // the failing module rotates with the insertion order
                        let fail_end = (si == usize::MAX - 1).then(|| perm[perm.len() / 2]);
                        let goes_down = (si == usize::MAX - 3).then(|| perm[(perm.len() - 1) / 2]);
                        let c = Case { parent: par.clone(), order: perm.clone(), stages: stages.clone(), offers: si == usize::MAX, fail_end, via_block: si == usize::MAX - 2, goes_down };
                        if goes_down.is_some() {
                            ctx.hit("module_down_at_the_end_of_the_run");
                        }
                        if c.via_block {
                            ctx.hit("subtrees_created_by_module_blocks");
                        }
                        if fail_end.is_some() {
                            ctx.hit("tear_down_reporting_an_error");
                        }
                        if c.offers {
                            ctx.hit("rejected_offers_between_insertions");
                        }
                        ctx.out.evaluations += 1;
                        ctx.out.traces += 1;
                        ctx.out.states += 1;
                        ctx.out.transitions += n as u64;
                        if n >= 3 {
                            ctx.out.nontrivial += 1;
                        }
                        if interleaved {
                            ctx.hit("interleaved_children_of_different_parents");
                        }
                        if stages.iter().any(|s| *s > 1) {
                            ctx.hit("multi_stage_module");
                        }
                        if stages.contains(&0) {
                            ctx.hit("module_without_start_stage");
                        }
                        if depth3 {
                            ctx.hit("depth_three_tree");
                        }
                        if roots > 1 {
                            ctx.hit("several_roots");
                        }
                        ctx.begin(|| case_json(&c));
                        match run_case(&c) {
                            Ok(o) => {
                                ctx.outcome(o);
                                if n == 4 && interleaved && depth3 {
                                    ctx.sample(|| case_json(&c));
                                }
                            }
                            Err(d) => ctx.violation("violation", || case_json(&c), d),
                        }
                    }
                }
            }
        }
    }
    fn replay(&self, case: &Value) -> Result<(), String> {
        if let Some(a) = case.get("ndl_stages") {
            return ndl_stages(a[0].as_u64().unwrap() as usize, a[1].as_u64().unwrap() as usize).map(|_| ());
        }
        if let Some(k) = case.get("rejection_kind") {
            return rejection(k.as_u64().unwrap() as u8, case["depth"].as_u64().unwrap() as usize);
        }
        run_case(&case_from(case)).map(|_| ())
    }
}

fn main() {
    run_property(&C12);
}
