//! C09 — a shut-down module is inert until restart and restarts cleanly on time.
//! Complete enumeration of timelines: shutdown / shutdown-and-restart requested from a handler,
//! a task or a start stage, task timer deadlines, message arrivals (direct, through a transit
//! gate of the victim, over a latency channel), repeated cycles, on a real 3-module simulation;
//! expected trace computed from the plan by interval logic; same-instant ties tolerated.

use vcheck::{json, quiet_catch, run_property, Ctx, Property, Tier, Value};
use des::prelude::*;
use des::time::{sleep, sleep_until};
use std::collections::BTreeSet;
use std::sync::atomic::{AtomicIsize, Ordering::SeqCst};
use std::sync::{Arc, Mutex};

type Log = Arc<Mutex<Vec<String>>>;
static LIVE_TASK: AtomicIsize = AtomicIsize::new(0);
struct TaskTok;
impl TaskTok {
    fn new() -> Self {
        LIVE_TASK.fetch_add(1, SeqCst);
        TaskTok
    }
}
impl Drop for TaskTok {
    fn drop(&mut self) {
        LIVE_TASK.fetch_sub(1, SeqCst);
    }
}
fn now2() -> u64 {
    (SimTime::now().as_millis() / 500) as u64
} // half-second units
fn lg(l: &Log, s: String) {
    l.lock().unwrap().push(format!("{s}@{}", now2()));
}
fn hs(h: u64) -> Duration {
    Duration::from_millis(h * 500)
}

#[derive(Clone, Debug)]
struct Plan {
    s1: u64,             // first shutdown time (half-seconds)
    r1: Option<u64>,     // restart delay
    by_task: bool,       // shutdown requested from a task instead of a handler
    d1: u64,             // incarnation-1 task deadline (absolute)
    d2: u64,             // incarnation-2 task sleep (relative)
    s2: Option<(u64, Option<u64>)>, // second shutdown: (delay after restart, restart delay)
    msgs: Vec<u64>,      // P -> V arrival times
    transit: bool,       // P sends to Q through V's transit gate instead of to V
    lat: bool,           // P's link has a latency of one unit (messages are in transit)
    abs: bool,           // restarts are requested with shutdow_and_restart_at(absolute time)
    pre: bool,           // every restart request is preceded, in the same event, by a plain shutdown()
}

fn request(r: Option<u64>, abs: bool, pre: bool) {
    if pre && r.is_some() {
        // a restart time is given by the request that follows: the module restarts
        current().shutdown();
    }
    match r {
        None => current().shutdown(),
        Some(r) if abs => current().shutdow_and_restart_at(SimTime::now() + hs(r)),
        Some(r) => current().shutdow_and_restart_in(hs(r)),
    }
}

struct V {
    log: Log,
    plan: Plan,
    inc: u32,
}
impl Module for V {
    fn reset(&mut self) {
        lg(&self.log, "V.reset".into());
    }
    fn at_sim_start(&mut self, _: usize) {
        self.inc += 1;
        let inc = self.inc;
        lg(&self.log, format!("V.start{inc}"));
        let l = self.log.clone();
        let p = self.plan.clone();
        if inc == 1 {
            let tok = TaskTok::new();
            tokio::spawn(async move {
                let _t = tok;
                sleep_until(SimTime::from_duration(hs(p.d1))).await;
                lg(&l, "V.task1".into());
            });
            if self.plan.by_task {
                let s1 = self.plan.s1;
                let r1 = self.plan.r1;
                let abs = self.plan.abs;
                let pre = self.plan.pre;
                let l = self.log.clone();
                tokio::spawn(async move {
                    sleep_until(SimTime::from_duration(hs(s1))).await;
                    lg(&l, "V.req1".into());
                    request(r1, abs, pre);
                });
            } else {
                schedule_at(Message::default().kind(90), SimTime::from_duration(hs(self.plan.s1)));
            }
        } else {
            let tok = TaskTok::new();
            let incn = inc;
            tokio::spawn(async move {
                let _t = tok;
                sleep(hs(p.d2)).await;
                lg(&l, format!("V.task{incn}"));
            });
            if inc == 2 {
                if let Some((d, _)) = self.plan.s2 {
                    schedule_in(Message::default().kind(91), hs(d));
                }
            }
        }
    }
    fn handle_message(&mut self, m: Message) {
        match m.header().kind {
            90 => {
                lg(&self.log, "V.req1".into());
                request(self.plan.r1, self.plan.abs, self.plan.pre);
            }
            91 => {
                lg(&self.log, "V.req2".into());
                request(self.plan.s2.unwrap().1, self.plan.abs, self.plan.pre);
            }
            k => {
                lg(&self.log, format!("V.msg{k}"));
                send(Message::default().kind(k), "port");
            }
        }
    }
}
struct P {
    log: Log,
    plan: Plan,
}
impl Module for P {
    fn at_sim_start(&mut self, _: usize) {
        for (i, &a) in self.plan.msgs.iter().enumerate() {
            // with a latency channel the message is sent one unit earlier: same arrival time, but in transit
            let at = if self.plan.lat { a - 1 } else { a };
            send_at(Message::default().kind(i as u16), "port", SimTime::from_duration(hs(at)));
        }
    }
    fn handle_message(&mut self, m: Message) {
        lg(&self.log, format!("P.echo{}", m.header().kind));
    }
}
struct Q {
    log: Log,
}
impl Module for Q {
    fn handle_message(&mut self, m: Message) {
        lg(&self.log, format!("Q.msg{}", m.header().kind));
    }
}

fn expected(p: &Plan) -> (BTreeSet<String>, BTreeSet<String>) {
    let mut req = BTreeSet::new();
    let mut opt = BTreeSet::new();
    let e = |s: &str, t: u64| format!("{s}@{t}");
    req.insert(e("V.start1", 0));
    // windows: active [0, s1], inert (s1, r) , active [r, s2abs], inert (s2abs, r2abs), active from r2abs
    let s1 = p.s1;
    req.insert(e("V.req1", s1));
    req.insert(e("V.reset", s1));
    let mut windows: Vec<(u64, Option<u64>)> = vec![(0, Some(s1))]; // (from, to)
    let mut restart1 = None;
    if let Some(r) = p.r1 {
        let r_abs = s1 + r;
        restart1 = Some(r_abs);
        req.insert(e("V.start2", r_abs));
        match p.s2 {
            None => {
                windows.push((r_abs, None));
                req.insert(e("V.task2", r_abs + p.d2));
            }
            Some((d, r2)) => {
                let s2 = r_abs + d;
                req.insert(e("V.req2", s2));
                req.insert(e("V.reset", s2)); // same string possibly at different time
                windows.push((r_abs, Some(s2)));
                let t2 = r_abs + p.d2;
                if t2 < s2 {
                    req.insert(e("V.task2", t2));
                } else if t2 == s2 {
                    opt.insert(e("V.task2", t2));
                }
                if let Some(r2) = r2 {
                    let r2_abs = s2 + r2;
                    req.insert(e("V.start3", r2_abs));
                    req.insert(e("V.task3", r2_abs + p.d2));
                    windows.push((r2_abs, None));
                }
            }
        }
    }
    // task1
    if p.d1 < s1 {
        req.insert(e("V.task1", p.d1));
    } else if p.d1 == s1 {
        opt.insert(e("V.task1", p.d1));
    }
    // messages
    for (i, &a) in p.msgs.iter().enumerate() {
        let mut state = 0; // 0 no, 1 yes, 2 tie
        for (k, &(from, to)) in windows.iter().enumerate() {
            let after_from = if k == 0 { true } else { a > from };
            let at_from = k != 0 && a == from;
            let before_to = to.map_or(true, |t| a < t);
            let at_to = to.map_or(false, |t| a == t);
            if (after_from || at_from) && (before_to || at_to) {
                if at_from || at_to {
                    if state == 0 {
                        state = 2;
                    }
                } else {
                    state = 1;
                }
            }
        }
        let (va, pa) = if p.transit { (format!("Q.msg{i}"), None) } else { (format!("V.msg{i}"), Some(format!("P.echo{i}"))) };
        match state {
            1 => {
                req.insert(e(&va, a));
                if let Some(pa) = pa {
                    req.insert(e(&pa, a + u64::from(p.lat)));
                }
            }
            2 => {
                opt.insert(e(&va, a));
                if let Some(pa) = pa {
                    opt.insert(e(&pa, a + u64::from(p.lat)));
                }
            }
            _ => {}
        }
    }
    let _ = restart1;
    (req, opt)
}


#[derive(Default)]
struct Facts {
    tie: bool,
    in_window_msg: bool,
    second_cycle: bool,
}

fn plan_json(p: &Plan) -> Value {
    json!({"s1": p.s1, "r1": p.r1, "by_task": p.by_task, "d1": p.d1, "d2": p.d2, "s2": p.s2.map(|(d, r)| json!([d, r])), "msgs": p.msgs, "transit": p.transit, "latency": p.lat, "absolute_restart_time": p.abs, "plain_shutdown_requested_first": p.pre, "unit": "half seconds"})
}
fn plan_from(v: &Value) -> Plan {
    Plan {
        s1: v["s1"].as_u64().unwrap(),
        r1: v["r1"].as_u64(),
        by_task: v["by_task"].as_bool().unwrap(),
        d1: v["d1"].as_u64().unwrap(),
        d2: v["d2"].as_u64().unwrap(),
        s2: v["s2"].as_array().map(|a| (a[0].as_u64().unwrap(), a[1].as_u64())),
        msgs: v["msgs"].as_array().unwrap().iter().map(|m| m.as_u64().unwrap()).collect(),
        transit: v["transit"].as_bool().unwrap(),
        lat: v["latency"].as_bool().unwrap_or(false),
        abs: v["absolute_restart_time"].as_bool().unwrap_or(false),
        pre: v["plain_shutdown_requested_first"].as_bool().unwrap_or(false),
    }
}

fn run_plan(plan: &Plan, facts: &mut Facts) -> Result<u64, String> {
    let p2 = plan.clone();
    let (okrun, got, leak) = quiet_catch(move || {
        let plan = p2;
        let log: Log = Default::default();
        LIVE_TASK.store(0, SeqCst);
        let mut sim = Sim::new(());
        sim.node("v", V { log: log.clone(), plan: plan.clone(), inc: 0 });
        sim.node("p", P { log: log.clone(), plan: plan.clone() });
        sim.node("q", Q { log: log.clone() });
        let pg = sim.gate("p", "port");
        let vg = sim.gate("v", "port");
        let qg = sim.gate("q", "port");
        let ch = if plan.lat { Some(Channel::new(ChannelMetrics::new(0, hs(1), Duration::ZERO, ChannelDropBehaviour::Drop))) } else { None };
        if plan.transit {
            pg.connect(vg.clone(), ch);
            vg.connect(qg, None);
        } else {
            pg.connect(vg, ch);
        }
        let r = Builder::seeded(1).quiet().max_time(100.0.into()).build(sim.freeze()).run();
        let okrun = r.is_ok();
        drop(r);
        let got: Vec<String> = log.lock().unwrap().clone();
        (okrun, got, LIVE_TASK.load(SeqCst))
    })
    .map_err(|m| format!("panicked: {m}"))?;
    // `reset` must run exactly once per shutdown; when inside the inert window is not specified
    let strip = |s: &String| -> String { if s.starts_with("V.reset@") { "V.reset".to_string() } else { s.clone() } };
    let got: Vec<String> = got.iter().map(strip).collect();
    let gotset: BTreeSet<String> = got.iter().cloned().collect();
    let (req, opt) = expected(plan);
    let req: BTreeSet<String> = req.iter().map(strip).collect();
    facts.tie = !opt.is_empty();
    facts.second_cycle = plan.s2.is_some();
    // a message arriving strictly inside an inert window
    facts.in_window_msg = plan.msgs.iter().enumerate().any(|(i, a)| {
        let tag = if plan.transit { format!("Q.msg{i}@{a}") } else { format!("V.msg{i}@{a}") };
        !req.contains(&tag) && !opt.contains(&tag)
    });
    if !okrun {
        return Err("run returned an error".into());
    }
    let resets = got.iter().filter(|s| s.starts_with("V.reset")).count();
    let exp_resets = 1 + usize::from(plan.r1.is_some() && plan.s2.is_some());
    if resets != exp_resets {
        return Err(format!("reset ran {resets} times for {exp_resets} shutdowns: {got:?}"));
    }
    let dup = gotset.len() != got.len() && !(resets == 2 && gotset.len() + 1 == got.len());
    if dup {
        return Err(format!("a callback or task step was observed twice: {got:?}"));
    }
    let missing: Vec<&String> = req.difference(&gotset).collect();
    let extra: Vec<&String> = gotset.iter().filter(|g| !req.contains(*g) && !opt.contains(*g)).collect();
    if !missing.is_empty() || !extra.is_empty() {
        return Err(format!(
            "trace (what@half-seconds) differs from the plan's expectation: missing {missing:?}, unexpected {extra:?} (tolerated same-instant ties: {opt:?}); full trace {got:?}"
        ));
    }
    let echo_of = |s: &str| -> String {
        let (what, t) = s.rsplit_once('@').unwrap();
        format!("{}@{}", what.replace("V.msg", "P.echo"), t.parse::<u64>().unwrap() + u64::from(plan.lat))
    };
    if !plan.transit && !got.iter().filter(|s| s.starts_with("V.msg")).all(|s| gotset.contains(&echo_of(s))) {
        return Err(format!("the peer did not receive exactly the echoes of the messages the victim handled: {got:?}"));
    }
    if leak != 0 {
        return Err(format!("{leak} task captures of the victim are still alive after the simulation was dropped"));
    }
    Ok(vcheck::fp(&gotset))
}

// ---- shutdown requested inside a start stage -------------------------------------------

struct StageV {
    log: Log,
    restart: Option<u64>,
    at_stage: usize,
    inc: u32,
    /// the restarted (second) incarnation requests a shutdown again in this start stage, i.e.
    /// inside its restart event: (stage, restart delay)
    again: Option<(usize, Option<u64>)>,
}
impl Module for StageV {
    fn num_sim_start_stages(&self) -> usize {
        3
    }
    fn reset(&mut self) {
        lg(&self.log, "S.reset".into());
    }
    fn at_sim_start(&mut self, st: usize) {
        if st == 0 {
            self.inc += 1;
        }
        lg(&self.log, format!("S.start{}:{st}", self.inc));
        if self.inc == 1 && st == self.at_stage {
            match self.restart {
                None => current().shutdown(),
                Some(r) => current().shutdow_and_restart_in(hs(r)),
            }
        }
        if let Some((stage, r)) = self.again {
            if self.inc == 2 && st == stage {
                match r {
                    None => current().shutdown(),
                    Some(r) => current().shutdow_and_restart_in(hs(r)),
                }
            }
        }
        if st == 2 {
            schedule_in(Message::default().kind(5), hs(1));
        }
    }
    fn handle_message(&mut self, _: Message) {
        lg(&self.log, "S.msg".into());
    }
}

/// The restarted incarnation asks for another shutdown inside its restart event (in one of its
/// start stages). The request takes effect at the end of that event: the stages of the restart
/// complete, afterwards the module is inert (its self message is dropped), it is reset a second
/// time, and a requested restart brings up a third incarnation exactly on time.
fn run_stage_again(stage: usize, r2: Option<u64>) -> Result<u64, String> {
    let got = quiet_catch(move || {
        let log: Log = Default::default();
        let mut sim = Sim::new(());
        sim.node("s", StageV { log: log.clone(), restart: Some(3), at_stage: 2, inc: 0, again: Some((stage, r2)) });
        sim.node("q", Q { log: log.clone() });
        let r = Builder::seeded(1).quiet().max_time(100.0.into()).build(sim.freeze()).run();
        drop(r);
        let g = log.lock().unwrap().clone();
        g
    })
    .map_err(|m| format!("panicked: {m}"))?;
    let resets = got.iter().filter(|s| s.starts_with("S.reset@")).count();
    if resets != 2 {
        return Err(format!("second shutdown requested in start stage {stage} of the restart event (restart {r2:?}): reset ran {resets} times for 2 shutdowns: {got:?}"));
    }
    let got: Vec<String> = got.into_iter().filter(|s| !s.starts_with("S.reset@")).collect();
    let mut exp: Vec<String> = (0..3).map(|s| format!("S.start1:{s}@0")).collect();
    exp.extend((0..3).map(|s| format!("S.start2:{s}@3")));
    if let Some(r) = r2 {
        exp.extend((0..3).map(|s| format!("S.start3:{s}@{}", 3 + r)));
        if r < 1 {
            exp.push("S.msg@4".into());
        }
        exp.push(format!("S.msg@{}", 4 + r));
    }
    // r2 == 1: the old self message arrives exactly at the restart instant (tie)
    if got != exp && r2 != Some(1) {
        return Err(format!("second shutdown requested in start stage {stage} of the restart event (restart {r2:?}): trace {got:?}, expected {exp:?}"));
    }
    Ok(vcheck::fp(&got))
}

fn run_stage(at_stage: usize, restart: Option<u64>) -> Result<u64, String> {
    let got = quiet_catch(move || {
        let log: Log = Default::default();
        let mut sim = Sim::new(());
        sim.node("s", StageV { log: log.clone(), restart, at_stage, inc: 0, again: None });
        sim.node("q", Q { log: log.clone() });
        let r = Builder::seeded(1).quiet().max_time(100.0.into()).build(sim.freeze()).run();
        drop(r);
        let g = log.lock().unwrap().clone();
        g
    })
    .map_err(|m| format!("panicked: {m}"))?;
    // reset must run exactly once; at which instant of the inert window is not specified
    let resets = got.iter().filter(|s| s.starts_with("S.reset@")).count();
    if resets != 1 {
        return Err(format!("shutdown requested in start stage {at_stage}: reset ran {resets} times: {got:?}"));
    }
    let got: Vec<String> = got.into_iter().filter(|s| !s.starts_with("S.reset@")).collect();
    let mut exp: Vec<String> = (0..=at_stage).map(|s| format!("S.start1:{s}@0")).collect();
    if let Some(r) = restart {
        for s in 0..3 {
            exp.push(format!("S.start2:{s}@{r}"));
        }
        // the self message of the first incarnation (scheduled in stage 2 for t=1) reaches the new
        // incarnation if that is already running again; at exactly the restart instant it is a tie
        if at_stage == 2 && r < 1 {
            exp.push("S.msg@1".into());
        }
        exp.push(format!("S.msg@{}", r + 1));
    }
    let tie_ok = at_stage == 2 && restart == Some(1);
    if got != exp && !tie_ok {
        return Err(format!("shutdown requested in start stage {at_stage} (restart {restart:?}): trace {got:?}, expected {exp:?}"));
    }
    Ok(vcheck::fp(&got))
}


// ---- a restarted module against its own first (fresh) incarnation ------------------------

/// Every incarnation runs the same script relative to its start: N tasks that log their first
/// poll, sleep one second and log again; at +2 s a handler feeds N values to a draining task; at
/// +3 s a handler spawns N tasks. The first incarnation is shut down at 5 s.
struct Twin {
    log: Arc<Mutex<Vec<(u32, String, u64)>>>,
    n: usize,
    restart: u64,
    inc: u32,
    base: u64,
    tx: Option<tokio::sync::mpsc::UnboundedSender<u32>>,
}
fn ms() -> u64 {
    SimTime::now().as_millis() as u64
}
impl Module for Twin {
    fn reset(&mut self) {
        self.tx = None;
    }
    fn at_sim_start(&mut self, _: usize) {
        self.inc += 1;
        self.base = ms();
        let (inc, base) = (self.inc, self.base);
        for i in 0..self.n {
            let l = self.log.clone();
            tokio::spawn(async move {
                l.lock().unwrap().push((inc, format!("first{i}"), ms() - base));
                sleep(Duration::from_secs(1)).await;
                l.lock().unwrap().push((inc, format!("slept{i}"), ms() - base));
            });
        }
        let (tx, mut rx) = tokio::sync::mpsc::unbounded_channel::<u32>();
        self.tx = Some(tx);
        let l = self.log.clone();
        tokio::spawn(async move {
            while let Some(v) = rx.recv().await {
                l.lock().unwrap().push((inc, format!("got{v}"), ms() - base));
            }
        });
        schedule_in(Message::default().kind(2), Duration::from_secs(2));
        schedule_in(Message::default().kind(3), Duration::from_secs(3));
        if inc == 1 {
            schedule_in(Message::default().kind(9), Duration::from_secs(5));
        }
    }
    fn handle_message(&mut self, m: Message) {
        let (inc, base) = (self.inc, self.base);
        match m.header().kind {
            2 => {
                for i in 0..self.n {
                    let _ = self.tx.as_ref().unwrap().send(i as u32);
                }
            }
            3 => {
                for i in 0..self.n {
                    let l = self.log.clone();
                    tokio::spawn(async move {
                        l.lock().unwrap().push((inc, format!("burst{i}"), ms() - base));
                    });
                }
            }
            9 => current().shutdow_and_restart_in(Duration::from_millis(self.restart)),
            _ => {}
        }
    }
}

fn run_twin(n: usize, restart: u64) -> Result<u64, String> {
    let got = quiet_catch(move || {
        let log: Arc<Mutex<Vec<(u32, String, u64)>>> = Default::default();
        let mut sim = Sim::new(());
        sim.node("t", Twin { log: log.clone(), n, restart, inc: 0, base: 0, tx: None });
        let r = Builder::seeded(1).quiet().max_time(100.0.into()).build(sim.freeze()).run();
        drop(r);
        let g = log.lock().unwrap().clone();
        g
    })
    .map_err(|m| format!("panicked: {m}"))?;
    let of = |k: u32| -> Vec<(String, u64)> { got.iter().filter(|e| e.0 == k).map(|e| (e.1.clone(), e.2)).collect() };
    let (a, b) = (of(1), of(2));
    if a.len() != 4 * n {
        return Err(format!("the fresh incarnation logged {} of {} steps", a.len(), 4 * n));
    }
    if a != b {
        let i = a.iter().zip(b.iter()).position(|(x, y)| x != y).unwrap_or(a.len().min(b.len()));
        return Err(format!(
            "module restarted {restart} ms after its shutdown, {n} tasks per burst: the restarted incarnation does not behave like the fresh one; first difference at step {i}: fresh {:?}, restarted {:?} (times relative to the incarnation's start, ms; {} vs {} steps)",
            a.get(i),
            b.get(i),
            a.len(),
            b.len()
        ));
    }
    if got.iter().any(|e| e.0 > 2) {
        return Err("more than one restart".into());
    }
    Ok(vcheck::fp(&a))
}

// ---- delayed sends that fall due while their sender is shut down --------------------------

struct DelayedTx {
    restart: Option<u64>,
    inc: u32,
}
impl Module for DelayedTx {
    fn at_sim_start(&mut self, _: usize) {
        self.inc += 1;
        if self.inc == 1 {
            for (id, at) in [(1u16, 1u64), (2, 3), (3, 8), (4, 13)] {
                send_in(Message::default().id(id), "out", hs(at));
            }
            schedule_in(Message::default().kind(9), hs(2));
        }
    }
    fn handle_message(&mut self, m: Message) {
        if m.header().kind == 9 {
            request(self.restart, false, false);
        }
    }
}
struct DelayedRx {
    log: Log,
}
impl Module for DelayedRx {
    fn handle_message(&mut self, m: Message) {
        lg(&self.log, format!("rx:{}", m.header().id));
    }
}

/// `send_in` issued at 0 for the instants 1, 3, 8 and 13; the sender shuts down at 2 and is back
/// at 2 + restart (or never): a send that falls due while its sender is down passes through
/// one of the shut-down module's gates and is dropped; the others are delivered on time.
fn run_delayed_send(restart: Option<u64>) -> Result<u64, String> {
    let got = quiet_catch(move || {
        let log: Log = Default::default();
        let mut sim = Sim::new(());
        sim.node("tx", DelayedTx { restart, inc: 0 });
        sim.node("rx", DelayedRx { log: log.clone() });
        sim.gate("tx", "out").connect(sim.gate("rx", "in"), None);
        let r = Builder::seeded(1).quiet().max_time(100.0.into()).build(sim.freeze()).run();
        drop(r);
        let g = log.lock().unwrap().clone();
        g
    })
    .map_err(|m| format!("panicked: {m}"))?;
    let up = restart.map(|r| 2 + r);
    let exp: Vec<String> = [(1u16, 1u64), (2, 3), (3, 8), (4, 13)]
        .iter()
        .filter(|(_, at)| *at < 2 || up.is_some_and(|u| *at > u))
        .map(|(id, at)| format!("rx:{id}@{at}"))
        .collect();
    if got != exp {
        return Err(format!("delayed sends due at 1, 3, 8, 13 (half seconds), sender down from 2 until {up:?}: the peer received {got:?}, expected {exp:?}"));
    }
    Ok(vcheck::fp(&got))
}

// ---- restart times far from zero ----------------------------------------------------------

struct FarMod {
    log: Arc<Mutex<Vec<u128>>>,
    delay_ns: u64,
    absolute: bool,
    inc: u32,
}
impl Module for FarMod {
    fn at_sim_start(&mut self, _: usize) {
        self.inc += 1;
        self.log.lock().unwrap().push(SimTime::now().as_nanos());
        if self.inc == 1 {
            schedule_in(Message::default(), Duration::from_nanos(3));
        }
    }
    fn handle_message(&mut self, _: Message) {
        let d = Duration::from_nanos(self.delay_ns);
        if self.absolute {
            current().shutdow_and_restart_at(SimTime::now() + d);
        } else {
            current().shutdow_and_restart_in(d);
        }
    }
}
/// A simulation that starts beyond 2^24 s of simulated time (where 1 ns is below the resolution
/// of an f64 second count): the restart happens at exactly request time + delay, to the nanosecond.
fn run_far_restart(start_ns: u64, delay_ns: u64, absolute: bool) -> Result<u64, String> {
    let got = quiet_catch(move || {
        let log: Arc<Mutex<Vec<u128>>> = Default::default();
        let mut sim = Sim::new(());
        sim.node("f", FarMod { log: log.clone(), delay_ns, absolute, inc: 0 });
        let start = SimTime::from_duration(Duration::from_nanos(start_ns));
        let r = Builder::seeded(1).quiet().cqueue_options(64, Duration::from_secs(100_000)).start_time(start).build(sim.freeze()).run();
        drop(r);
        let g = log.lock().unwrap().clone();
        g
    })
    .map_err(|m| format!("panicked: {m}"))?;
    let exp = vec![u128::from(start_ns), u128::from(start_ns) + 3 + u128::from(delay_ns)];
    if got != exp {
        return Err(format!(
            "simulation starting at {start_ns}ns, restart requested 3ns later with a delay of {delay_ns}ns ({}): start stages ran at {got:?}ns, expected {exp:?}ns",
            if absolute { "shutdow_and_restart_at" } else { "shutdow_and_restart_in" }
        ));
    }
    Ok(vcheck::fp(&got))
}

// ---- a module that declares no start stage, restarted -------------------------------------

struct NoStage {
    log: Log,
    seen: u32,
}
impl Module for NoStage {
    fn num_sim_start_stages(&self) -> usize {
        0
    }
    fn reset(&mut self) {
        lg(&self.log, "Z.reset".into());
    }
    fn at_sim_start(&mut self, st: usize) {
        lg(&self.log, format!("Z.start{st}"));
    }
    fn handle_message(&mut self, _: Message) {
        self.seen += 1;
        lg(&self.log, format!("Z.msg{}", self.seen));
        if self.seen == 1 {
            current().shutdow_and_restart_in(hs(2));
        }
    }
}
struct Feeder;
impl Module for Feeder {
    fn at_sim_start(&mut self, _: usize) {
        for at in [2u64, 3, 6] {
            send_in(Message::default(), "out", hs(at));
        }
    }
}
/// A module without start stages is never started, neither at the beginning nor by a restart
/// ("behaves like a freshly started module").
fn run_no_stage() -> Result<u64, String> {
    let got = quiet_catch(move || {
        let log: Log = Default::default();
        let mut sim = Sim::new(());
        sim.node("z", NoStage { log: log.clone(), seen: 0 });
        sim.node("p", Feeder);
        sim.gate("p", "out").connect(sim.gate("z", "in"), None);
        let r = Builder::seeded(1).quiet().max_time(100.0.into()).build(sim.freeze()).run();
        drop(r);
        let g = log.lock().unwrap().clone();
        g
    })
    .map_err(|m| format!("panicked: {m}"))?;
    let got: Vec<String> = got.into_iter().map(|s| if s.starts_with("Z.reset@") { "Z.reset".to_string() } else { s }).collect();
    let exp = vec!["Z.msg1@2".to_string(), "Z.reset".into(), "Z.msg2@6".into()];
    if got != exp {
        return Err(format!("module without start stages, shut down at 2 and restarted at 4 (messages at 2, 3, 6): trace {got:?}, expected {exp:?}"));
    }
    Ok(vcheck::fp(&got))
}

// ---- processing elements of a shut-down module ---------------------------------------------

struct Spy {
    log: Log,
}
impl des::net::processing::ProcessingElement for Spy {
    fn event_start(&mut self) {
        lg(&self.log, "E.start".into());
    }
    fn event_end(&mut self) {
        lg(&self.log, "E.end".into());
    }
    fn incoming(&mut self, m: Message) -> Option<Message> {
        lg(&self.log, format!("E.in{}", m.header().id));
        Some(m)
    }
}
struct Guarded {
    log: Log,
}
impl Module for Guarded {
    fn stack(&self, mut s: des::net::processing::ProcessingStack) -> des::net::processing::ProcessingStack {
        s.append(Spy { log: self.log.clone() });
        s
    }
    fn handle_message(&mut self, m: Message) {
        lg(&self.log, format!("G.msg{}", m.header().id));
        if m.header().id == 1 {
            current().shutdow_and_restart_in(hs(4));
        }
    }
}
struct Knocker;
impl Module for Knocker {
    fn at_sim_start(&mut self, _: usize) {
        for (id, at) in [(1u16, 2u64), (2, 4), (3, 8)] {
            send_in(Message::default().id(id), "out", hs(at));
        }
    }
}
/// A module with a processing element shuts down at 2 and is back at 6; a message arrives at 4:
/// nothing of the module runs for it, its processing elements included.
fn run_guarded() -> Result<u64, String> {
    let got = quiet_catch(move || {
        let log: Log = Default::default();
        let mut sim = Sim::new(());
        sim.node("g", Guarded { log: log.clone() });
        sim.node("k", Knocker);
        sim.gate("k", "out").connect(sim.gate("g", "in"), None);
        let r = Builder::seeded(1).quiet().max_time(100.0.into()).build(sim.freeze()).run();
        drop(r);
        let g = log.lock().unwrap().clone();
        g
    })
    .map_err(|m| format!("panicked: {m}"))?;
    let inside: Vec<&String> = got.iter().filter(|e| e.ends_with("@3") || e.ends_with("@4") || e.ends_with("@5")).collect();
    if !inside.is_empty() {
        return Err(format!("module with a processing element, down from 2 until 6, message arriving at 4: {inside:?} ran during the down-time (full log {got:?})"));
    }
    let msgs: Vec<&String> = got.iter().filter(|e| e.starts_with("G.msg") || e.starts_with("E.in")).collect();
    let exp = ["E.in1@2", "G.msg1@2", "E.in3@8", "G.msg3@8"];
    if msgs.iter().map(|s| s.as_str()).collect::<Vec<_>>() != exp {
        return Err(format!("module with a processing element, down from 2 until 6: messages seen {msgs:?}, expected {exp:?}"));
    }
    Ok(vcheck::fp(&got))
}

struct C09;

impl Property for C09 {
    fn id(&self) -> &'static str {
        "C09"
    }
    fn rule(&self, tier: Tier) -> String {
        format!(
            "timelines in half-second units: first shutdown at {{4,6}} x restart delay {{none,0,2,5}} x requested from {{handler, task}} x old task deadline {{2,4,6,7,11,30}} x new task sleep {{1,3}} x second shutdown {{none, +2 no restart, +2 restart 2, +3 restart 0}}              x message route {{to the victim, through a transit gate of the victim}} x {{direct, over a latency channel}} x restart requested by delay, (direct case) by absolute time, or by delay right after a plain shutdown() in the same event (a restart time was given: the module restarts) x every set of up to {} arrival times from {{1,3,4,5,6,8,9,11,13,16}}; plus shutdown requested in each of 3 start stages x restart {{none,0,3}}; plus 24 simulations that start beyond 2^24 s / 2^25 s / just below 2^32 s of simulated time, in which a restart is requested with delays of 1 ns to 2 s (by delay and by absolute time): the restart must happen at exactly request time + delay, to the nanosecond; plus a module with a processing element that is down while a message arrives (the element must not see it); plus the restart of a module that declares no start stage (never started, not by the restart either); plus send_in issued before the shutdown for instants before, inside and after the down-time (restart none/3/9/30: a send falling due while its sender is down is dropped, the others arrive on time); plus a second shutdown requested by the restarted incarnation inside its restart event (each of its 3 start stages x restart {{none,0,2,5}}: the restart's stages complete, then inert, second reset, third incarnation on time); plus a module whose every incarnation runs one script (N tasks polled at start and after a sleep, N values drained by one task, N tasks spawned by a handler; N in {{1,2,3,59..63,70,128,129,200}}, restart delay {{0,1,1500}} ms): the restarted incarnation's log, relative to its start, must equal the fresh one's;              oracle: expectation computed from the plan: no callback, task step or timer of the victim inside an inert window, messages inside it dropped (also through its transit gate) and never delivered later, reset once per shutdown, start stages once at exactly the restart time, old tasks never resume, task captures dropped, peer receives exactly the echoes;              an event at exactly the shutdown/restart instant is a tie and accepted either way; non-trivial = timeline with a message or deadline strictly inside an inert window",
            tier.pick(2, 3)
        )
    }
    fn assumptions(&self) -> Vec<String> {
        vec![
            "a self-scheduled message of an old incarnation that arrives after the restart is delivered to the new incarnation; the statement speaks of messages during the inert window only".into(),
            "victim scripts are stateless apart from the incarnation counter".into(),
        ]
    }
    fn required_features(&self, _tier: Tier) -> Vec<&'static str> {
        vec!["same_instant_tie", "message_inside_inert_window", "repeated_cycle", "request_from_task", "transit_gate_route", "latency_channel", "shutdown_in_start_stage", "restarted_vs_fresh_incarnation", "shutdown_requested_inside_the_restart_event", "delayed_send_due_while_sender_is_down", "restart_of_a_module_without_start_stages", "processing_element_of_a_shut_down_module", "plain_shutdown_and_restart_request_in_one_event", "restart_beyond_2^24_seconds"]
    }
    fn explore(&self, ctx: &mut Ctx) {
        if ctx.is_first_shard() {
            for at_stage in 0..3 {
                for restart in [None, Some(0u64), Some(3)] {
                    ctx.out.evaluations += 1;
                    ctx.hit("shutdown_in_start_stage");
                    match run_stage(at_stage, restart) {
                        Ok(o) => ctx.outcome(o),
                        Err(d) => ctx.violation("violation", || json!({"start_stage": at_stage, "restart": restart}), d),
                    }
                }
            }
        }
        for n in [1usize, 2, 3, 59, 60, 61, 62, 63, 70, 128, 129, 200] {
            for restart in [0u64, 1, 1500] {
                if !ctx.mine() {
                    continue;
                }
                ctx.begin(|| json!({"twin_tasks": n, "restart_ms": restart}));
                ctx.out.evaluations += 1;
                ctx.hit("restarted_vs_fresh_incarnation");
                match run_twin(n, restart) {
                    Ok(o) => ctx.outcome(o),
                    Err(d) => ctx.violation("violation", || json!({"twin_tasks": n, "restart_ms": restart}), d),
                }
            }
        }
        if ctx.is_first_shard() {
            for stage in 0..3 {
                for r2 in [None, Some(0u64), Some(2), Some(5)] {
                    ctx.out.evaluations += 1;
                    ctx.hit("shutdown_requested_inside_the_restart_event");
                    match run_stage_again(stage, r2) {
                        Ok(o) => ctx.outcome(o),
                        Err(d) => ctx.violation("violation", || json!({"restart_stage": stage, "restart2": r2}), d),
                    }
                }
            }
        }
        if ctx.is_first_shard() {
            ctx.out.evaluations += 1;
            ctx.hit("processing_element_of_a_shut_down_module");
            match run_guarded() {
                Ok(o) => ctx.outcome(o),
                Err(d) => ctx.violation("violation", || json!({"probe": "guarded"}), d),
            }
            ctx.out.evaluations += 1;
            ctx.hit("restart_of_a_module_without_start_stages");
            match run_no_stage() {
                Ok(o) => ctx.outcome(o),
                Err(d) => ctx.violation("violation", || json!({"probe": "no_stage"}), d),
            }
            for start in [20_000_000_123_456_789u64, (1u64 << 25) * 1_000_000_000 + 999_999_999, (1u64 << 32) * 1_000_000_000 - 1_000_000_007] {
                for delay in [1_500_000_001u64, 1, 999_999_999, 2_000_000_014] {
                    for absolute in [false, true] {
                        ctx.out.evaluations += 1;
                        ctx.hit("restart_beyond_2^24_seconds");
                        match run_far_restart(start, delay, absolute) {
                            Ok(o) => ctx.outcome(o),
                            Err(d) => ctx.violation("violation", || json!({"probe": "far_restart", "start_ns": start, "delay_ns": delay, "absolute": absolute}), d),
                        }
                    }
                }
            }
            for restart in [None, Some(3u64), Some(9), Some(30)] {
                ctx.out.evaluations += 1;
                ctx.hit("delayed_send_due_while_sender_is_down");
                match run_delayed_send(restart) {
                    Ok(o) => ctx.outcome(o),
                    Err(d) => ctx.violation("violation", || json!({"delayed_send_restart": restart, "probe": "delayed_send"}), d),
                }
            }
        }
        let times = [1u64, 3, 4, 5, 6, 8, 9, 11, 13, 16];
        let maxm = ctx.tier.pick(2, 3);
        let mut sets: Vec<Vec<u64>> = vec![vec![]];
        for (i, &a) in times.iter().enumerate() {
            sets.push(vec![a]);
            for (j, &b) in times.iter().enumerate().skip(i + 1) {
                sets.push(vec![a, b]);
                if maxm >= 3 {
                    for &c in &times[j + 1..] {
                        sets.push(vec![a, b, c]);
                    }
                }
            }
        }
        for s1 in [4u64, 6] {
            for r1 in [None, Some(0u64), Some(2), Some(5)] {
                for by_task in [false, true] {
                    for d1 in [2u64, 4, 6, 7, 11, 30] {
                        for d2 in [1u64, 3] {
                            for s2 in [None, Some((2u64, None)), Some((2u64, Some(2u64))), Some((3u64, Some(0u64)))] {
                                if r1.is_none() && s2.is_some() {
                                    continue;
                                }
                                for transit in [false, true] {
                                    for (lat, abs, pre) in [(false, false, false), (true, false, false), (false, true, false), (false, false, true)] {
                                        if (abs || pre) && r1.is_none() {
                                            continue;
                                        }
                                        for msgs in &sets {
                                            if !ctx.mine() {
                                                continue;
                                            }
                                            let plan = Plan { s1, r1, by_task, d1, d2, s2, msgs: msgs.clone(), transit, lat, abs, pre };
                                            let mut f = Facts::default();
                                            ctx.begin(|| plan_json(&plan));
                                            let r = run_plan(&plan, &mut f);
                                            ctx.out.evaluations += 1;
                                            ctx.out.traces += 1;
                                            ctx.out.states += 1;
                                            ctx.out.transitions += 4 + msgs.len() as u64;
                                            if f.tie {
                                                ctx.hit("same_instant_tie");
                                            }
                                            if f.in_window_msg {
                                                ctx.hit("message_inside_inert_window");
                                                ctx.out.nontrivial += 1;
                                            }
                                            if f.second_cycle {
                                                ctx.hit("repeated_cycle");
                                            }
                                            if by_task {
                                                ctx.hit("request_from_task");
                                            }
                                            if transit {
                                                ctx.hit("transit_gate_route");
                                            }
                                            if lat {
                                                ctx.hit("latency_channel");
                                            }
                                            if pre {
                                                ctx.hit("plain_shutdown_and_restart_request_in_one_event");
                                            }
                                            match r {
                                                Ok(o) => {
                                                    ctx.outcome(o);
                                                    if f.in_window_msg && f.second_cycle && msgs.len() == 2 {
                                                        ctx.sample(|| plan_json(&plan));
                                                    }
                                                }
                                                Err(d) => ctx.violation("violation", || plan_json(&plan), d),
                                            }
                                        }
                                    }
                                }
                            }
                        }
                    }
                }
            }
        }
    }
    fn replay(&self, case: &Value) -> Result<(), String> {
        if let Some(n) = case.get("twin_tasks") {
            return run_twin(n.as_u64().unwrap() as usize, case["restart_ms"].as_u64().unwrap()).map(|_| ());
        }
        if case.get("probe").and_then(Value::as_str) == Some("guarded") {
            return run_guarded().map(|_| ());
        }
        if case.get("probe").and_then(Value::as_str) == Some("far_restart") {
            return run_far_restart(case["start_ns"].as_u64().unwrap(), case["delay_ns"].as_u64().unwrap(), case["absolute"].as_bool().unwrap()).map(|_| ());
        }
        if case.get("probe").and_then(Value::as_str) == Some("no_stage") {
            return run_no_stage().map(|_| ());
        }
        if case.get("probe").and_then(Value::as_str) == Some("delayed_send") {
            return run_delayed_send(case["delayed_send_restart"].as_u64()).map(|_| ());
        }
        if let Some(st) = case.get("restart_stage") {
            return run_stage_again(st.as_u64().unwrap() as usize, case["restart2"].as_u64()).map(|_| ());
        }
        if let Some(st) = case.get("start_stage") {
            return run_stage(st.as_u64().unwrap() as usize, case["restart"].as_u64()).map(|_| ());
        }
        run_plan(&plan_from(case), &mut Facts::default()).map(|_| ())
    }
}

fn main() {
    run_property(&C09);
}
