//! C15 — calendar-queue memory is safe and every payload is dropped exactly once.
//! Complete enumeration of add/fetch/cancel histories (every length up to the bound, each
//! ending with the queue being dropped with whatever is still pending) x payload types x
//! page sizes on the real `CQueue`, with a shadow map of the page allocator fed by the
//! cfg-guarded observer hook and a drop ledger for the payloads.

use des_cqueue::{verif_set_alloc_observer, CQueue, EventHandle, VerifAllocEvent};
use std::cell::RefCell;
use std::collections::{BTreeMap, BTreeSet};
use std::rc::Rc;
use std::time::Duration;
use vcheck::{json, quiet_catch, run_property, Ctx, Property, Tier, Value};

struct C15;

thread_local! {
    static DROPS: RefCell<Vec<u32>> = const { RefCell::new(Vec::new()) };
}

trait Payload: 'static {
    fn make(id: u32) -> Self;
    fn id(&self) -> u32;
    fn intact(&self) -> bool;
}
macro_rules! payload {
    ($name:ident, $inner:ty, $mk:expr, $ok:expr $(, $attr:meta)?) => {
        $(#[$attr])?
        struct $name {
            id: u32,
            data: $inner,
        }
        impl Payload for $name {
            fn make(id: u32) -> Self {
                let f: fn(u32) -> $inner = $mk;
                $name { id, data: f(id) }
            }
            fn id(&self) -> u32 {
                self.id
            }
            fn intact(&self) -> bool {
                let f: fn(u32, &$inner) -> bool = $ok;
                f(self.id, &self.data)
            }
        }
        impl Drop for $name {
            fn drop(&mut self) {
                DROPS.with(|d| d.borrow_mut().push(self.id));
            }
        }
    };
}
fn pat(i: u32, k: usize) -> u8 {
    (i as usize * 37 + k * 11 + 5) as u8
}
payload!(P8, u8, |i| pat(i, 0), |i, d| *d == pat(i, 0));
payload!(P64, u64, |i| u64::from(i + 1) * 0x0101_0101_0101_0101, |i, d| *d == u64::from(i + 1) * 0x0101_0101_0101_0101);
payload!(P24, [u8; 24], |i| std::array::from_fn(|k| pat(i, k)), |i, d| d.iter().enumerate().all(|(k, b)| *b == pat(i, k)));
payload!(PA16, [u64; 4], |i| [u64::from(i) ^ 0xa5a5_a5a5_5a5a_5a5a; 4], |i, d| d.iter().all(|b| *b == u64::from(i) ^ 0xa5a5_a5a5_5a5a_5a5a), repr(align(16)));
payload!(PS, String, |i| format!("payload-{i}-{}", "x".repeat(i as usize % 7)), |i, d| *d == format!("payload-{i}-{}", "x".repeat(i as usize % 7)));
payload!(PZ, (), |_| (), |_, _| true);
payload!(P300, [u8; 300], |i| std::array::from_fn(|k| pat(i, k)), |i, d| d.iter().enumerate().all(|(k, b)| *b == pat(i, k)));
payload!(P2000, [u8; 2000], |i| std::array::from_fn(|k| pat(i, k)), |i, d| d.iter().enumerate().all(|(k, b)| *b == pat(i, k)));

#[derive(Clone, Copy, Debug, PartialEq)]
enum Op {
    Add(u64),
    Fetch,
    Cancel(usize),
}
fn op_json(o: Op) -> Value {
    match o {
        Op::Add(d) => json!(["add", d]),
        Op::Fetch => json!(["fetch"]),
        Op::Cancel(j) => json!(["cancel", j]),
    }
}
fn op_from(v: &Value) -> Op {
    match v[0].as_str().unwrap() {
        "add" => Op::Add(v[1].as_u64().unwrap()),
        "fetch" => Op::Fetch,
        _ => Op::Cancel(v[1].as_u64().unwrap() as usize),
    }
}

#[derive(Default)]
struct Shadow {
    pages: BTreeMap<usize, usize>,
    live: BTreeMap<usize, usize>,
    errors: Vec<String>,
    allocs: usize,
    reuses: usize,
    max_pages: usize,
    freed_once: BTreeSet<usize>,
}

#[derive(Default, Clone, Copy)]
struct Facts {
    reused: bool,
    multi_page: bool,
    dropped_pending: bool,
    cancel_live: bool,
}

const N: usize = 2;
const T: u64 = 3;

fn run<P: Payload>(page: usize, hist: &[Op]) -> Result<Facts, String> {
    let shadow = Rc::new(RefCell::new(Shadow::default()));
    let sh = shadow.clone();
    verif_set_alloc_observer(Some(Box::new(move |ev| {
        let mut s = sh.borrow_mut();
        match ev {
            VerifAllocEvent::Page { addr, len } => {
                s.pages.insert(addr, len);
                s.max_pages = s.max_pages.max(s.pages.len());
            }
            VerifAllocEvent::PageFreed { addr } => {
                match s.pages.remove(&addr) {
                    None => s.errors.push(format!("page {addr:#x} released but not owned (or released twice)")),
                    Some(len) => {
                        // releasing a page wholesale ends the life of the node allocations inside it
                        let inside: Vec<usize> = s.live.range(addr..addr + len).map(|e| *e.0).collect();
                        for a in inside {
                            s.live.remove(&a);
                        }
                    }
                }
            }
            VerifAllocEvent::Alloc { addr, size, req_size, req_align } => {
                s.allocs += 1;
                if s.freed_once.contains(&addr) {
                    s.reuses += 1;
                }
                if size < req_size {
                    s.errors.push(format!("allocation of {size} bytes for a request of {req_size}"));
                }
                if addr % req_align != 0 {
                    s.errors.push(format!("allocation {addr:#x} misaligned for the node type (align {req_align})"));
                }
                let inpage = s.pages.range(..=addr).next_back().is_some_and(|(p, l)| addr + size <= p + l);
                if !inpage {
                    s.errors.push(format!("allocation {addr:#x}+{size} lies outside the owned pages"));
                }
                let below = s.live.range(..addr + size).next_back().is_some_and(|(a, l)| a + l > addr);
                if below {
                    s.errors.push(format!("allocation {addr:#x}+{size} overlaps a live allocation"));
                }
                s.live.insert(addr, size);
            }
            VerifAllocEvent::Dealloc { addr, size } => {
                let inpage = s.pages.range(..=addr).next_back().is_some_and(|(p, l)| addr + size <= p + l);
                if !inpage {
                    s.errors.push(format!("release of {addr:#x}+{size} which lies outside the owned pages (page already released?)"));
                }
                match s.live.remove(&addr) {
                    Some(l) if l == size => {}
                    other => s.errors.push(format!("release of {addr:#x}+{size} does not match a live allocation ({other:?})")),
                }
                s.freed_once.insert(addr);
            }
        }
    })));
    DROPS.with(|d| d.borrow_mut().clear());
    let mut facts = Facts::default();
    let res = quiet_catch(|| -> Result<u32, String> {
        let mut expected_drops: Vec<u32> = vec![];
        let mut made = 0u32;
        let mut q: CQueue<P> = CQueue::verif_with_page_size(N, Duration::from_nanos(T), page);
        let mut handles: Vec<Option<EventHandle<P>>> = vec![];
        let mut state: Vec<u8> = vec![]; // 0 live 1 fetched 2 cancelled
        for (oi, &op) in hist.iter().enumerate() {
            match op {
                Op::Add(d) => {
                    let id = made;
                    made += 1;
                    handles.push(Some(q.add(q.time() + Duration::from_nanos(d), P::make(id))));
                    state.push(0);
                }
                Op::Fetch => {
                    if q.is_empty() {
                        continue;
                    }
                    let (p, _) = q.fetch_next();
                    let pid = p.id();
                    if (pid as usize) >= state.len() {
                        std::mem::forget(p);
                        return Err(format!("op #{oi}: fetched a payload with unknown id {pid} (corrupted)"));
                    }
                    if !p.intact() {
                        return Err(format!("op #{oi}: payload {pid} was not returned bit-for-bit as inserted"));
                    }
                    if state[pid as usize] != 0 {
                        std::mem::forget(p);
                        return Err(format!("op #{oi}: payload {pid} returned again (state {})", state[pid as usize]));
                    }
                    state[pid as usize] = 1;
                    if DROPS.with(|d| d.borrow().contains(&pid)) {
                        std::mem::forget(p);
                        return Err(format!("op #{oi}: payload {pid} was dropped by the queue although it is handed to the caller"));
                    }
                    expected_drops.push(pid);
                    drop(p);
                }
                Op::Cancel(j) => {
                    if let Some(h) = handles.get_mut(j).and_then(Option::take) {
                        let before = q.len();
                        q.cancel(h);
                        // the drop is tied to what the queue did: a cancel that removed an event
                        // must have dropped exactly that payload by now
                        if q.len() < before {
                            expected_drops.push(j as u32);
                            state[j] = 2;
                        }
                    }
                }
            }
            let mut got = DROPS.with(|d| d.borrow().clone());
            got.sort_unstable();
            let mut exp = expected_drops.clone();
            exp.sort_unstable();
            if got != exp {
                return Err(format!("after op #{oi} {op:?}: payloads dropped so far {got:?}, expected {exp:?}"));
            }
        }
        drop(q);
        Ok(made)
    });
    verif_set_alloc_observer(None);
    let made = match res {
        Err(m) => return Err(format!("subject panicked: {m}")),
        Ok(r) => r?,
    };
    let mut got = DROPS.with(|d| d.borrow().clone());
    got.sort_unstable();
    let exp: Vec<u32> = (0..made).collect();
    if got != exp {
        return Err(format!("after dropping the queue the payloads dropped are {got:?}, every one of {exp:?} must be dropped exactly once"));
    }
    let s = shadow.borrow();
    if let Some(e) = s.errors.first() {
        return Err(e.clone());
    }
    if !s.pages.is_empty() {
        return Err(format!("{} pages were never released", s.pages.len()));
    }
    facts.reused = s.reuses > 0;
    facts.multi_page = s.max_pages > 1;
    Ok(facts)
}

type Runner = fn(usize, &[Op]) -> Result<Facts, String>;
fn types() -> Vec<(&'static str, Runner, Vec<usize>)> {
    vec![
        ("u8", run::<P8> as Runner, vec![256, 512, 4096]),
        ("u64", run::<P64>, vec![256, 512, 4096]),
        ("[u8;24]", run::<P24>, vec![256, 512, 4096]),
        ("align16x32", run::<PA16>, vec![256, 512, 4096]),
        ("String", run::<PS>, vec![256, 512, 4096]),
        ("zst", run::<PZ>, vec![256, 512, 4096]),
        ("[u8;300]", run::<P300>, vec![512, 1024, 4096]),
        ("[u8;2000]", run::<P2000>, vec![4096, 8192]),
    ]
}

fn ops_at(adds: usize) -> Vec<Op> {
    let mut v = vec![Op::Add(0), Op::Add(1), Op::Add(7), Op::Fetch];
    for j in 0..adds {
        v.push(Op::Cancel(j));
    }
    v
}

fn case_json(ty: &str, page: usize, h: &[Op]) -> Value {
    json!({"payload": ty, "page_size": page, "n": N, "t_ns": T, "ops": h.iter().map(|o| op_json(*o)).collect::<Vec<_>>(), "then": "drop queue"})
}

impl Property for C15 {
    fn id(&self) -> &'static str {
        "C15"
    }
    fn rule(&self, tier: Tier) -> String {
        format!(
            "every history of 1..={} operations from {{Add(0), Add(1), Add(Y+1), Fetch, Cancel(j) for every handle issued}} followed by dropping the queue, \
             x payload types {{u8, u64, [u8;24], align(16) 32B, String, ZST, [u8;300], [u8;2000]}} (each with a destructor and a per-id byte pattern) x 2-3 page sizes each (256 B .. 8 KiB), on CQueue(n=2,t=3ns); \
             oracle: shadow map of pages and live allocations (alignment for the node type, inside an owned page, disjoint from live allocations, release matches a live allocation, every page released once), \
             drop ledger (dropped exactly when handed out and dropped by the caller / when a cancel removed the event / when the queue is dropped), fetched bytes == inserted bytes; \
             a worker killed by a signal counts as a violation; non-trivial = history that re-used a released node or needed more than one page",
            tier.pick(8, 9)
        )
    }
    fn assumptions(&self) -> Vec<String> {
        vec![
            "allocator events come from the cfg-guarded observer hook inside allocate/deallocate/add_page/Drop; the verdict on payloads (drops, bytes) uses the public API only".into(),
            "node sizes whose page remainder is smaller than a free-list node (e.g. page - size = 8) are outside the alphabet".into(),
        ]
    }
    fn required_features(&self, _tier: Tier) -> Vec<&'static str> {
        vec!["history_reusing_a_released_node", "history_spanning_several_pages", "queue_dropped_with_pending_events", "cancel_of_live_event", "cancel_of_dead_handle"]
    }
    fn crash_is_violation(&self) -> bool {
        true
    }
    fn explore(&self, ctx: &mut Ctx) {
        let depth = ctx.tier.pick(8, 9);
        for (ty, runner, pages) in types() {
            for page in pages {
                // big payloads: fewer ops are needed to span pages; keep the deepest level for the small ones
                let depth = if ty == "[u8;2000]" || ty == "[u8;300]" { depth - 1 } else { depth };
                let mut stack: Vec<Vec<Op>> = vec![vec![]];
                while let Some(h) = stack.pop() {
                    if h.len() == 3 && !ctx.mine() {
                        continue;
                    }
                    if h.len() < depth {
                        let adds = h.iter().filter(|o| matches!(o, Op::Add(_))).count();
                        for op in ops_at(adds) {
                            let mut h2 = h.clone();
                            h2.push(op);
                            stack.push(h2);
                        }
                    }
                    if h.is_empty() || (h.len() < 3 && !ctx.is_first_shard()) {
                        continue;
                    }
                    ctx.out.evaluations += 1;
                    ctx.out.traces += 1;
                    ctx.out.states += 1;
                    ctx.out.transitions += h.len() as u64 + 1;
                    // features known from the history itself
                    let mut live: Vec<bool> = vec![];
                    let (mut pend, mut cancel_live, mut cancel_dead) = (0i64, false, false);
                    let mut fetched = 0usize;
                    for o in &h {
                        match o {
                            Op::Add(_) => {
                                live.push(true);
                                pend += 1;
                            }
                            Op::Fetch => {
                                if pend > 0 {
                                    pend -= 1;
                                    fetched += 1;
                                }
                            }
                            Op::Cancel(_) => {}
                        }
                    }
                    let _ = (&live, fetched);
                    ctx.begin(|| case_json(ty, page, &h));
                    match runner(page, &h) {
                        Ok(f) => {
                            if f.reused {
                                ctx.hit("history_reusing_a_released_node");
                            }
                            if f.multi_page {
                                ctx.hit("history_spanning_several_pages");
                            }
                            if f.reused || f.multi_page {
                                ctx.out.nontrivial += 1;
                            }
                            ctx.outcome(vcheck::fp(&(ty, page, f.reused, f.multi_page, h.len())));
                            if h.len() == 6 && f.reused {
                                ctx.sample(|| case_json(ty, page, &h));
                            }
                        }
                        Err(d) => ctx.violation("violation", || case_json(ty, page, &h), format!("[{ty}, page {page}] {d}")),
                    }
                    // cheap structural features (reference semantics of the history)
                    let mut st: Vec<u8> = vec![];
                    let mut order: Vec<(u64, usize)> = vec![];
                    let mut now = 0u64;
                    for o in &h {
                        match o {
                            Op::Add(d) => {
                                st.push(0);
                                order.push((now + d, st.len() - 1));
                            }
                            Op::Fetch => {
                                if let Some((i, _)) = order.iter().enumerate().filter(|(_, e)| st[e.1] == 0).min_by_key(|(_, e)| e.0) {
                                    let e = order[i];
                                    st[e.1] = 1;
                                    now = e.0;
                                }
                            }
                            Op::Cancel(j) => {
                                if st[*j] == 0 {
                                    st[*j] = 2;
                                    cancel_live = true;
                                } else {
                                    cancel_dead = true;
                                }
                            }
                        }
                    }
                    if st.iter().any(|s| *s == 0) {
                        ctx.hit("queue_dropped_with_pending_events");
                    }
                    if cancel_live {
                        ctx.hit("cancel_of_live_event");
                    }
                    if cancel_dead {
                        ctx.hit("cancel_of_dead_handle");
                    }
                }
            }
        }
    }
    fn replay(&self, case: &Value) -> Result<(), String> {
        let ty = case["payload"].as_str().unwrap();
        let page = case["page_size"].as_u64().unwrap() as usize;
        let h: Vec<Op> = case["ops"].as_array().unwrap().iter().map(op_from).collect();
        let (_, runner, _) = types().into_iter().find(|t| t.0 == ty).ok_or("unknown payload type")?;
        runner(page, &h).map(|_| ())
    }
}

fn main() {
    run_property(&C15);
}
