//! C06 — all runnable async work finishes within the simulated instant that enabled it.
//! Complete grid: wake-up pattern x trigger x spawn kind x number of simultaneously runnable
//! tasks N, on a real simulation. Every task logs `SimTime::now()` right after its await.

use des::net::processing::{ProcessingElement, ProcessingStack};
use des::prelude::*;
use des::time::sleep;
use std::sync::{Arc, Mutex};
use tokio::sync::{broadcast, mpsc, oneshot, Notify, Semaphore};
use vcheck::{json, quiet_catch, run_property, Ctx, Property, Tier, Value};

struct C06;

type Log = Arc<Mutex<Vec<(u32, u64)>>>; // (task, now ms)
fn now() -> u64 {
    (SimTime::now().as_nanos() / 1_000_000) as u64
}

#[derive(Clone, Copy, Debug, PartialEq, Eq)]
enum Pat {
    /// N tasks sleeping to one deadline (trigger: timer wake-up)
    Sleepers,
    /// chain of N tasks over oneshots, head released by a message
    Chain,
    /// N tasks on Notify::notified, released by a message
    NotifyAll,
    /// N tasks acquiring a semaphore, permits added by a message
    Semaphore,
    /// N tasks receiving one broadcast value sent by a message handler
    Broadcast,
    /// one task draining N queued mpsc messages (one poll)
    Drain,
    /// handler spawns N tasks
    SpawnBurst,
    /// one task joining N handles of tasks that all finish at one deadline
    JoinAll,
    /// start stage spawns N tasks that run immediately
    StartStage,
    /// module restarts at 2 s; its start stage spawns N tasks
    Restart,
    /// a timer-woken task notifies N waiters (wake-up chain behind a timer)
    TimerThenNotify,
    /// a task that calls yield_now() N times after its sleep
    Yield,
    /// a processing element consumes the message (handler skipped) and releases N tasks
    ElementConsumes,
    /// a processing element releases N tasks in event_start of a message event
    ElementStartHook,
    /// a processing element releases N tasks in event_end of a message event
    ElementEndHook,
    /// ... in event_end of a message event whose message the element consumed (handler skipped)
    ElementConsumesThenEndHook,
    /// ... in event_end of a timer wake-up event
    ElementEndHookOnTimer,
    /// ... in event_end of the start stage (tasks spawned by that stage)
    ElementEndHookOnStart,
    /// the handler releases N tasks and, in the same call, requests a shutdown
    NotifyThenShutdown,
    /// ... requests a shutdown with a restart one second later
    NotifyThenRestart,
    /// N tasks sleep to 1 s; a message arriving at exactly 1 s makes the handler request a shutdown
    SleepersThenShutdown,
    /// the start stage spawns N tasks and requests a shutdown in the same call
    StartThenShutdown,
    /// N tasks whose 0.5 s timeout is armed and resolved (cancelled) in the start instant and
    /// which then sleep to 1 s: the live timers sit behind cancelled ones in the module's timer queue
    SleepBehindCancelledTimer,
    /// N tasks whose 0.5 s sleep was polled once (pending) and is then reset to 1 s
    SleepResetToLater,
    /// the first incarnation has a timer pending (due at 1.5 s) when it shuts down at 1 s; the
    /// restart at 2.5 s spawns N tasks that sleep for 0.2 s
    RestartAfterPendingTimer,
    /// N tasks, each with two timers for the same deadline (1 s), both polled while pending;
    /// the one registered first is dropped at once, the task awaits the other
    TwinTimersFirstDropped,
    /// N intervals whose first (immediate) tick is awaited by one task and whose 1 s tick is
    /// awaited by another task the interval was moved into
    IntervalMovedToAnotherTask,
    /// timers for 0.5 s and 2 s are armed first, then N tasks sleep to 1 s (a deadline between the two)
    TimerArmedBetweenTwoOthers,
}
const PATS: [Pat; 28] = [
    Pat::Sleepers,
    Pat::Chain,
    Pat::NotifyAll,
    Pat::Semaphore,
    Pat::Broadcast,
    Pat::Drain,
    Pat::SpawnBurst,
    Pat::JoinAll,
    Pat::StartStage,
    Pat::Restart,
    Pat::TimerThenNotify,
    Pat::Yield,
    Pat::ElementConsumes,
    Pat::ElementStartHook,
    Pat::ElementEndHook,
    Pat::ElementConsumesThenEndHook,
    Pat::ElementEndHookOnTimer,
    Pat::ElementEndHookOnStart,
    Pat::NotifyThenShutdown,
    Pat::NotifyThenRestart,
    Pat::SleepersThenShutdown,
    Pat::StartThenShutdown,
    Pat::SleepBehindCancelledTimer,
    Pat::SleepResetToLater,
    Pat::RestartAfterPendingTimer,
    Pat::TwinTimersFirstDropped,
    Pat::IntervalMovedToAnotherTask,
    Pat::TimerArmedBetweenTwoOthers,
];

#[derive(Clone, Copy, Debug, PartialEq, Eq)]
enum Kind {
    Runtime,
    Local,
}

fn spawn_kind<F: std::future::Future<Output = ()> + Send + 'static>(k: Kind, f: F) -> tokio::task::JoinHandle<()> {
    match k {
        Kind::Runtime => tokio::spawn(f),
        Kind::Local => tokio::task::spawn_local(f),
    }
}

/// processing element that releases the waiting tasks at the 1 s message event
struct Waker {
    pat: Pat,
    notify: Arc<Notify>,
}
impl ProcessingElement for Waker {
    fn event_start(&mut self) {
        if self.pat == Pat::ElementStartHook && now() == 1000 {
            self.notify.notify_waiters();
        }
    }
    fn event_end(&mut self) {
        if matches!(self.pat, Pat::ElementEndHook | Pat::ElementConsumesThenEndHook | Pat::ElementEndHookOnTimer) && now() == 1000 {
            self.notify.notify_waiters();
        }
        if self.pat == Pat::ElementEndHookOnStart && now() == 0 {
            self.notify.notify_waiters();
        }
    }
    fn incoming(&mut self, m: Message) -> Option<Message> {
        if self.pat == Pat::ElementConsumes && m.header().kind == 8 {
            self.notify.notify_waiters();
            return None;
        }
        if self.pat == Pat::ElementConsumesThenEndHook && m.header().kind == 8 {
            return None;
        }
        Some(m)
    }
}

struct Mo {
    pat: Pat,
    kind: Kind,
    n: usize,
    log: Log,
    tx: Option<mpsc::UnboundedSender<u32>>,
    trigger: Option<oneshot::Sender<()>>,
    notify: Arc<Notify>,
    sem: Arc<Semaphore>,
    bc: Option<broadcast::Sender<u8>>,
    incarnation: u32,
}

impl Mo {
    fn new(pat: Pat, kind: Kind, n: usize, log: Log) -> Self {
        Mo { pat, kind, n, log, tx: None, trigger: None, notify: Arc::new(Notify::new()), sem: Arc::new(Semaphore::new(0)), bc: None, incarnation: 0 }
    }
}

impl Module for Mo {
    fn reset(&mut self) {}
    fn stack(&self, mut s: ProcessingStack) -> ProcessingStack {
        if matches!(self.pat, Pat::ElementConsumes | Pat::ElementStartHook | Pat::ElementEndHook | Pat::ElementConsumesThenEndHook | Pat::ElementEndHookOnTimer | Pat::ElementEndHookOnStart) {
            s.append(Waker { pat: self.pat, notify: self.notify.clone() });
        }
        s
    }
    fn at_sim_start(&mut self, _: usize) {
        let n = self.n;
        let k = self.kind;
        self.incarnation += 1;
        if self.incarnation > 1 && self.pat == Pat::NotifyThenRestart {
            return;
        }
        match self.pat {
            Pat::NotifyThenShutdown | Pat::NotifyThenRestart => {
                for i in 0..n {
                    let l = self.log.clone();
                    let nf = self.notify.clone();
                    spawn_kind(k, async move {
                        nf.notified().await;
                        l.lock().unwrap().push((i as u32, now()));
                    });
                }
                let kind = if self.pat == Pat::NotifyThenShutdown { 10 } else { 11 };
                schedule_in(Message::default().kind(kind), Duration::from_secs(1));
            }
            Pat::SleepersThenShutdown => {
                for i in 0..n {
                    let l = self.log.clone();
                    spawn_kind(k, async move {
                        sleep(Duration::from_secs(1)).await;
                        l.lock().unwrap().push((i as u32, now()));
                    });
                }
                schedule_in(Message::default().kind(12), Duration::from_secs(1));
            }
            Pat::SleepBehindCancelledTimer => {
                for i in 0..n {
                    let l = self.log.clone();
                    let (tx, rx) = oneshot::channel::<()>();
                    spawn_kind(k, async move {
                        let _ = des::time::timeout(Duration::from_millis(500), rx).await;
                        sleep(Duration::from_secs(1)).await;
                        l.lock().unwrap().push((i as u32, now()));
                    });
                    spawn_kind(k, async move {
                        let _ = tx.send(());
                    });
                }
            }
            Pat::RestartAfterPendingTimer => {
                if self.incarnation == 1 {
                    spawn_kind(k, async move {
                        sleep(Duration::from_millis(1500)).await;
                    });
                    schedule_in(Message::default().kind(13), Duration::from_secs(1));
                } else {
                    for i in 0..n {
                        let l = self.log.clone();
                        spawn_kind(k, async move {
                            sleep(Duration::from_millis(200)).await;
                            l.lock().unwrap().push((i as u32, now()));
                        });
                    }
                }
            }
            Pat::TimerArmedBetweenTwoOthers => {
                for d in [500u64, 2000] {
                    spawn_kind(k, async move {
                        sleep(Duration::from_millis(d)).await;
                    });
                }
                for i in 0..n {
                    let l = self.log.clone();
                    spawn_kind(k, async move {
                        sleep(Duration::from_secs(1)).await;
                        l.lock().unwrap().push((i as u32, now()));
                    });
                }
            }
            Pat::IntervalMovedToAnotherTask => {
                for i in 0..n {
                    let l = self.log.clone();
                    spawn_kind(k, async move {
                        let mut iv = des::time::interval(Duration::from_secs(1));
                        iv.tick().await;
                        spawn_kind(k, async move {
                            iv.tick().await;
                            l.lock().unwrap().push((i as u32, now()));
                        });
                    });
                }
            }
            Pat::TwinTimersFirstDropped => {
                for i in 0..n {
                    let l = self.log.clone();
                    spawn_kind(k, async move {
                        let a = Box::pin(sleep(Duration::from_secs(1)));
                        let b = sleep(Duration::from_secs(1));
                        tokio::pin!(b);
                        let mut a = a;
                        tokio::select! {
                            biased;
                            () = &mut a => {}
                            () = &mut b => {}
                            () = std::future::ready(()) => {}
                        }
                        drop(a);
                        b.await;
                        l.lock().unwrap().push((i as u32, now()));
                    });
                }
            }
            Pat::SleepResetToLater => {
                for i in 0..n {
                    let l = self.log.clone();
                    spawn_kind(k, async move {
                        let s = sleep(Duration::from_millis(500));
                        tokio::pin!(s);
                        tokio::select! {
                            biased;
                            () = &mut s => {}
                            () = std::future::ready(()) => {}
                        }
                        s.as_mut().reset(SimTime::now() + Duration::from_secs(1));
                        s.await;
                        l.lock().unwrap().push((i as u32, now()));
                    });
                }
            }
            Pat::StartThenShutdown => {
                for i in 0..n {
                    let l = self.log.clone();
                    spawn_kind(k, async move {
                        l.lock().unwrap().push((i as u32, now()));
                    });
                }
                current().shutdown();
            }
            Pat::Sleepers => {
                for i in 0..n {
                    let l = self.log.clone();
                    spawn_kind(k, async move {
                        sleep(Duration::from_secs(1)).await;
                        l.lock().unwrap().push((i as u32, now()));
                    });
                }
            }
            Pat::Chain => {
                let (tx0, mut prev) = oneshot::channel::<()>();
                self.trigger = Some(tx0);
                for i in 0..n {
                    let (tx, rx) = oneshot::channel::<()>();
                    let l = self.log.clone();
                    let p = std::mem::replace(&mut prev, rx);
                    spawn_kind(k, async move {
                        let _ = p.await;
                        l.lock().unwrap().push((i as u32, now()));
                        let _ = tx.send(());
                    });
                }
                schedule_in(Message::default().kind(1), Duration::from_secs(1));
            }
            Pat::ElementEndHookOnTimer | Pat::ElementEndHookOnStart => {
                for i in 0..n {
                    let l = self.log.clone();
                    let nf = self.notify.clone();
                    spawn_kind(k, async move {
                        nf.notified().await;
                        l.lock().unwrap().push((i as u32, now()));
                    });
                }
                if self.pat == Pat::ElementEndHookOnTimer {
                    // nothing but a timer wake-up activates the module at 1 s
                    spawn_kind(k, async move {
                        sleep(Duration::from_secs(1)).await;
                    });
                }
            }
            Pat::ElementConsumes | Pat::ElementStartHook | Pat::ElementEndHook | Pat::ElementConsumesThenEndHook => {
                for i in 0..n {
                    let l = self.log.clone();
                    let nf = self.notify.clone();
                    spawn_kind(k, async move {
                        nf.notified().await;
                        l.lock().unwrap().push((i as u32, now()));
                    });
                }
                schedule_in(Message::default().kind(8), Duration::from_secs(1));
            }
            Pat::NotifyAll | Pat::TimerThenNotify => {
                for i in 0..n {
                    let l = self.log.clone();
                    let nf = self.notify.clone();
                    spawn_kind(k, async move {
                        nf.notified().await;
                        l.lock().unwrap().push((i as u32, now()));
                    });
                }
                if self.pat == Pat::NotifyAll {
                    schedule_in(Message::default().kind(2), Duration::from_secs(1));
                } else {
                    let nf = self.notify.clone();
                    spawn_kind(k, async move {
                        sleep(Duration::from_secs(1)).await;
                        nf.notify_waiters();
                    });
                }
            }
            Pat::Semaphore => {
                for i in 0..n {
                    let l = self.log.clone();
                    let s = self.sem.clone();
                    spawn_kind(k, async move {
                        let p = s.acquire().await.unwrap();
                        l.lock().unwrap().push((i as u32, now()));
                        p.forget();
                    });
                }
                schedule_in(Message::default().kind(5), Duration::from_secs(1));
            }
            Pat::Broadcast => {
                let (tx, _) = broadcast::channel::<u8>(4);
                for i in 0..n {
                    let l = self.log.clone();
                    let mut rx = tx.subscribe();
                    spawn_kind(k, async move {
                        let _ = rx.recv().await;
                        l.lock().unwrap().push((i as u32, now()));
                    });
                }
                self.bc = Some(tx);
                schedule_in(Message::default().kind(6), Duration::from_secs(1));
            }
            Pat::Drain => {
                let (tx, mut rx) = mpsc::unbounded_channel::<u32>();
                self.tx = Some(tx);
                let l = self.log.clone();
                spawn_kind(k, async move {
                    while let Some(v) = rx.recv().await {
                        l.lock().unwrap().push((v, now()));
                    }
                });
                schedule_in(Message::default().kind(3), Duration::from_secs(1));
            }
            Pat::SpawnBurst => schedule_in(Message::default().kind(4), Duration::from_secs(1)),
            Pat::JoinAll => {
                let mut hs = vec![];
                for _ in 0..n {
                    hs.push(spawn_kind(k, async move {
                        sleep(Duration::from_secs(1)).await;
                    }));
                }
                let l = self.log.clone();
                spawn_kind(k, async move {
                    for (i, h) in hs.into_iter().enumerate() {
                        let _ = h.await;
                        l.lock().unwrap().push((i as u32, now()));
                    }
                });
            }
            Pat::StartStage => {
                for i in 0..n {
                    let l = self.log.clone();
                    spawn_kind(k, async move {
                        l.lock().unwrap().push((i as u32, now()));
                    });
                }
            }
            Pat::Restart => {
                if self.incarnation == 1 {
                    schedule_in(Message::default().kind(7), Duration::from_secs(1));
                } else {
                    for i in 0..n {
                        let l = self.log.clone();
                        spawn_kind(k, async move {
                            l.lock().unwrap().push((i as u32, now()));
                        });
                    }
                }
            }
            Pat::Yield => {
                let l = self.log.clone();
                spawn_kind(k, async move {
                    sleep(Duration::from_secs(1)).await;
                    for _ in 0..n {
                        tokio::task::yield_now().await;
                    }
                    l.lock().unwrap().push((0, now()));
                });
            }
        }
    }
    fn handle_message(&mut self, m: Message) {
        match m.header().kind {
            1 => {
                let _ = self.trigger.take().unwrap().send(());
            }
            2 => self.notify.notify_waiters(),
            3 => {
                for i in 0..self.n {
                    let _ = self.tx.as_ref().unwrap().send(i as u32);
                }
            }
            4 => {
                for i in 0..self.n {
                    let l = self.log.clone();
                    spawn_kind(self.kind, async move {
                        l.lock().unwrap().push((i as u32, now()));
                    });
                }
            }
            5 => self.sem.add_permits(self.n),
            6 => {
                let _ = self.bc.as_ref().unwrap().send(1);
            }
            7 => current().shutdow_and_restart_in(Duration::from_secs(1)),
            10 => {
                self.notify.notify_waiters();
                current().shutdown();
            }
            11 => {
                self.notify.notify_waiters();
                current().shutdow_and_restart_in(Duration::from_secs(1));
            }
            12 => current().shutdown(),
            13 => current().shutdow_and_restart_in(Duration::from_millis(1500)),
            _ => {}
        }
    }
}

/// a second module whose trace must not be affected
struct Bystander {
    log: Log,
}
impl Module for Bystander {
    fn at_sim_start(&mut self, _: usize) {
        for k in 1..=9 {
            schedule_in(Message::default().kind(50), Duration::from_millis(k * 1000 - 500));
        }
        let l = self.log.clone();
        tokio::spawn(async move {
            for i in 0..4 {
                sleep(Duration::from_secs(1)).await;
                l.lock().unwrap().push((100 + i, now()));
            }
        });
    }
    fn handle_message(&mut self, _: Message) {
        self.log.lock().unwrap().push((50, now()));
    }
}

#[derive(Clone, Copy, Debug)]
struct Case {
    pat: Pat,
    kind: Kind,
    n: usize,
}

fn expected_time(c: &Case) -> u64 {
    match c.pat {
        Pat::StartStage | Pat::ElementEndHookOnStart | Pat::StartThenShutdown => 0,
        Pat::Restart => 2000,
        Pat::RestartAfterPendingTimer => 2700,
        _ => 1000,
    }
}
fn expected_entries(c: &Case) -> usize {
    match c.pat {
        Pat::Yield => 1,
        _ => c.n,
    }
}
/// task polls the instant needs
fn polls_needed(c: &Case) -> usize {
    match c.pat {
        Pat::Drain => 1,
        Pat::Yield => 1 + c.n,
        Pat::JoinAll | Pat::TimerThenNotify | Pat::ElementEndHookOnTimer => c.n + 1,
        Pat::TimerArmedBetweenTwoOthers => c.n + 2,
        Pat::SleepBehindCancelledTimer | Pat::IntervalMovedToAnotherTask => 3 * c.n,
        _ => c.n,
    }
}
/// budgeted tokio operations completing inside one poll
fn budgeted_ops_in_one_poll(c: &Case) -> usize {
    match c.pat {
        Pat::Drain | Pat::JoinAll => c.n,
        _ => 1,
    }
}

/// Class of a failing case, derived from the case alone (see KNOWN_FINDINGS.json).
fn class_of(c: &Case) -> &'static str {
    if c.pat == Pat::Yield || budgeted_ops_in_one_poll(c) > 128 {
        "deferred_wake_in_event"
    } else if c.kind == Kind::Local && polls_needed(c) > 60 {
        "spawn_local_gt60_polls"
    } else {
        "violation"
    }
}

fn case_json(c: &Case) -> Value {
    json!({"pattern": format!("{:?}", c.pat), "spawn": format!("{:?}", c.kind), "n": c.n})
}
fn case_from(v: &Value) -> Case {
    Case {
        pat: *PATS.iter().find(|p| format!("{p:?}") == v["pattern"].as_str().unwrap()).unwrap(),
        kind: if v["spawn"] == "Local" { Kind::Local } else { Kind::Runtime },
        n: v["n"].as_u64().unwrap() as usize,
    }
}

fn run_case(c: &Case) -> Result<u64, String> {
    let c = *c;
    let (got, by) = quiet_catch(move || {
        let log: Log = Default::default();
        let bylog: Log = Default::default();
        let mut sim = Sim::new(());
        sim.node("m", Mo::new(c.pat, c.kind, c.n, log.clone()));
        sim.node("by", Bystander { log: bylog.clone() });
        let g = sim.gate("m", "in");
        let mut rt = Builder::seeded(1).quiet().build(sim.freeze());
        // later activations of the module: work left behind would run (late) at one of these
        for k in 3..9 {
            rt.add_message_onto(g.clone(), Message::default().kind(99), SimTime::from_duration(Duration::from_secs(k)));
        }
        let r = rt.run();
        drop(r);
        let l = log.lock().unwrap().clone();
        let b = bylog.lock().unwrap().clone();
        (l, b)
    })
    .map_err(|m| format!("panicked: {m}"))?;
    let exp_t = expected_time(&c);
    let exp_n = expected_entries(&c);
    let late: Vec<&(u32, u64)> = got.iter().filter(|e| e.1 != exp_t).collect();
    if got.len() != exp_n || !late.is_empty() {
        let mut times: Vec<u64> = late.iter().map(|e| e.1).collect();
        times.sort_unstable();
        times.dedup();
        return Err(format!(
            "{} of {exp_n} awaited conditions were observed, {} of them not at the enabling instant {exp_t}ms but at {times:?}ms (pattern {:?}, {:?} tasks, N = {})",
            got.len(),
            late.len(),
            c.pat,
            c.kind,
            c.n
        ));
    }
    // order inside the instant: tasks of one wake-up source run in spawn order for the chain
    if c.pat == Pat::Chain && got.iter().map(|e| e.0).collect::<Vec<_>>() != (0..c.n as u32).collect::<Vec<_>>() {
        return Err("chain links ran out of order".into());
    }
    let mut exp_by: Vec<(u32, u64)> = (1..=9).map(|k| (50, k * 1000 - 500)).collect();
    exp_by.extend((0..4).map(|i| (100 + i, (u64::from(i) + 1) * 1000)));
    exp_by.sort_by_key(|e| e.1);
    if by != exp_by {
        return Err(format!("the bystander module's trace changed: {by:?}"));
    }
    Ok(vcheck::fp(&(got.len(), exp_t)))
}

fn ns(tier: Tier) -> Vec<usize> {
    let mut v: Vec<usize> = (1..=70).collect();
    v.extend([100, 127, 128, 129, 130, 200, 500, 1000]);
    if tier == Tier::Thorough {
        v.extend([2000, 5000]);
    }
    v
}

impl Property for C06 {
    fn id(&self) -> &'static str {
        "C06"
    }
    fn level(&self) -> &'static str {
        "exploration"
    }
    fn rule(&self, tier: Tier) -> String {
        format!(
            "complete grid: pattern in {PATS:?} x spawn kind {{tokio::spawn, spawn_local}} x N in {:?} (Yield: N = number of yields 1..3); every task logs SimTime::now() right after its await, which must equal the enabling instant, every awaited condition must be observed, a bystander module's trace must be unchanged; \
             a failing case is classified from the case alone: 'deferred_wake_in_event' (explicit yield_now, or more than 128 budgeted tokio operations completing in one poll), 'spawn_local_gt60_polls' (spawn_local tasks needing more than 60 polls in the instant), anything else is a violation; non-trivial = N >= 2",
            ns(tier)
        )
    }
    fn assumptions(&self) -> Vec<String> {
        vec![
            "exhaustive over the stated grid only; 'all numbers of tasks' is covered for every N up to 70 and selected values up to 1000 (5000 thorough)".into(),
            "the two documented findings are matched by predicates on the case (KNOWN_FINDINGS.json), never by the failure".into(),
        ]
    }
    fn required_features(&self, _tier: Tier) -> Vec<&'static str> {
        vec!["n_at_least_61_runtime_tasks", "wake_chain", "restart_trigger", "start_stage_trigger", "message_trigger", "timer_trigger", "local_tasks", "processing_element_trigger", "shutdown_requested_in_the_event", "timer_behind_cancelled_timer"]
    }
    fn finding_classes(&self) -> Vec<&'static str> {
        vec!["deferred_wake_in_event", "spawn_local_gt60_polls"]
    }
    fn explore(&self, ctx: &mut Ctx) {
        for pat in PATS {
            for kind in [Kind::Runtime, Kind::Local] {
                let list = if pat == Pat::Yield { vec![1, 2, 3] } else { ns(ctx.tier) };
                for n in list {
                    if !ctx.mine() {
                        continue;
                    }
                    let c = Case { pat, kind, n };
                    ctx.begin(|| case_json(&c));
                    ctx.out.evaluations += 1;
                    ctx.out.traces += 1;
                    ctx.out.states += 1;
                    ctx.out.transitions += n as u64;
                    if n >= 2 {
                        ctx.out.nontrivial += 1;
                    }
                    if n >= 61 && kind == Kind::Runtime {
                        ctx.hit("n_at_least_61_runtime_tasks");
                    }
                    if kind == Kind::Local {
                        ctx.hit("local_tasks");
                    }
                    match pat {
                        Pat::Chain | Pat::TimerThenNotify => ctx.hit("wake_chain"),
                        Pat::Restart | Pat::RestartAfterPendingTimer => ctx.hit("restart_trigger"),
                        Pat::NotifyThenShutdown | Pat::NotifyThenRestart | Pat::SleepersThenShutdown | Pat::StartThenShutdown => ctx.hit("shutdown_requested_in_the_event"),
                        Pat::StartStage => ctx.hit("start_stage_trigger"),
                        Pat::Sleepers => ctx.hit("timer_trigger"),
                        Pat::SleepBehindCancelledTimer | Pat::SleepResetToLater | Pat::TwinTimersFirstDropped | Pat::IntervalMovedToAnotherTask | Pat::TimerArmedBetweenTwoOthers => ctx.hit("timer_behind_cancelled_timer"),
                        Pat::NotifyAll => ctx.hit("message_trigger"),
                        Pat::ElementConsumes | Pat::ElementStartHook | Pat::ElementEndHook | Pat::ElementConsumesThenEndHook | Pat::ElementEndHookOnTimer | Pat::ElementEndHookOnStart => ctx.hit("processing_element_trigger"),
                        _ => {}
                    }
                    match run_case(&c) {
                        Ok(o) => {
                            ctx.outcome(o);
                            if n == 64 && pat == Pat::Chain {
                                ctx.sample(|| case_json(&c));
                            }
                        }
                        Err(d) => ctx.violation(class_of(&c), || case_json(&c), d),
                    }
                }
            }
        }
    }
    fn replay(&self, case: &Value) -> Result<(), String> {
        run_case(&case_from(case)).map(|_| ())
    }
}

fn main() {
    run_property(&C06);
}
