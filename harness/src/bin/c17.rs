//! C17 — configuration entries reach exactly the modules they address.
//! Complete enumeration of flat dotted-key configurations (specific paths, `<any>` at any
//! depth, prefix-sharing and non-ASCII sibling names) x include orders, on a real `Sim`
//! holding a fixed module tree, against a reference matcher written from the statement;
//! plus the enumeration of typed read/write sequences for the type rule.

use des::prelude::*;
use std::collections::{BTreeMap, BTreeSet};
use vcheck::{json, quiet_catch, run_property, Ctx, Property, Tier, Value};

struct C17;

#[derive(Default)]
struct M;
impl Module for M {}

const ANY: &str = "<any>";
const SEGS: [&str; 6] = ["a", "ab", "b", "aß", ANY, "a-b"];
const PROPS: [&str; 2] = ["x", "y.z"];
const MODULE_PATHS: [&str; 13] = ["a", "ab", "b", "aß", "a.b", "a.ab", "ab.b", "a.aß", "a.b.a", "a.b.a.b", "b.a", "a-b", "a.a-b"];

/// reference matcher: key = module path (`<any>` = exactly one segment) ++ property name
fn matches(key: &[&str], path: &[&str]) -> Option<String> {
    if key.len() <= path.len() {
        return None;
    }
    for i in 0..path.len() {
        if key[i] != ANY && key[i] != path[i] {
            return None;
        }
    }
    let rest = key[path.len()..].join(".");
    if rest.contains(ANY) {
        return None;
    }
    Some(rest)
}

fn candidate_keys() -> Vec<Vec<&'static str>> {
    let mut keys = vec![];
    for d in 1..=3usize {
        for code in 0..SEGS.len().pow(d as u32) {
            let mut c = code;
            let mut k = vec![];
            for _ in 0..d {
                k.push(SEGS[c % SEGS.len()]);
                c /= SEGS.len();
            }
            // the hyphenated name only in the keys a-b, a.a-b and <any>.a-b
            if k.contains(&"a-b") && !(k == ["a-b"] || k == ["a", "a-b"] || k == [ANY, "a-b"]) {
                continue;
            }
            for p in PROPS {
                let mut kk = k.clone();
                kk.extend(p.split('.'));
                keys.push(kk);
            }
        }
    }
    keys
}

#[derive(Clone, Copy, Debug, PartialEq)]
enum Mode {
    Before,
    After,
    /// first entry before node creation, the others after
    Split,
}

type Observed = BTreeMap<String, BTreeMap<String, i64>>;

fn observe(entries: &[String], mode: Mode) -> Result<Observed, String> {
    let yaml_of = |es: &[String]| -> String { es.iter().enumerate().map(|(i, k)| format!("\"{k}\": {}\n", value_of(entries, k, i))).collect() };
    fn value_of(all: &[String], k: &str, _i: usize) -> usize {
        all.iter().position(|x| x == k).unwrap() + 1
    }
    let entries = entries.to_vec();
    quiet_catch(move || {
        let mut sim = Sim::new(());
        match mode {
            Mode::Before => sim.include_cfg(&yaml_of(&entries)),
            Mode::Split => sim.include_cfg(&yaml_of(&entries[..1])),
            Mode::After => {}
        }
        for p in MODULE_PATHS {
            sim.node(p, M);
        }
        match mode {
            Mode::After => sim.include_cfg(&yaml_of(&entries)),
            Mode::Split if entries.len() > 1 => sim.include_cfg(&yaml_of(&entries[1..])),
            _ => {}
        }
        let mut out: Observed = BTreeMap::new();
        for p in MODULE_PATHS {
            let m = sim.get(&p.into()).unwrap();
            let mut ks = m.props_keys();
            ks.sort();
            let mut mm = BTreeMap::new();
            for k in ks {
                let v = m.prop_raw(&k).as_value().and_then(|v| v.as_i64()).unwrap_or(-1);
                mm.insert(k, v);
            }
            out.insert(p.to_string(), mm);
        }
        out
    })
    .map_err(|m| format!("panicked: {m}"))
}

fn check(keys: &[Vec<&str>], combo: &[usize], mode: Mode) -> Result<u64, String> {
    let entries: Vec<String> = combo.iter().map(|&k| keys[k].join(".")).collect();
    let out = observe(&entries, mode).map_err(|e| format!("configuration {entries:?} ({mode:?}): {e}"))?;
    for p in MODULE_PATHS {
        let path: Vec<&str> = p.split('.').collect();
        let mut exp: BTreeMap<String, Vec<i64>> = BTreeMap::new();
        for (vi, &ki) in combo.iter().enumerate() {
            if let Some(name) = matches(&keys[ki], &path) {
                exp.entry(name).or_default().push(vi as i64 + 1);
            }
        }
        let got = &out[p];
        let gk: BTreeSet<&String> = got.keys().collect();
        let ek: BTreeSet<&String> = exp.keys().collect();
        if gk != ek {
            return Err(format!("configuration {entries:?} ({mode:?}): module '{p}' has properties {gk:?}, the entries addressing it give {ek:?}"));
        }
        for (k, v) in got {
            if !exp[k].contains(v) {
                return Err(format!("configuration {entries:?} ({mode:?}): module '{p}' property '{k}' = {v}, matching entries carry {:?}", exp[k]));
            }
        }
    }
    Ok(vcheck::fp(&out))
}

// ---------------------------------------------------------------- type rule

#[derive(Clone, Copy, Debug, PartialEq, Eq)]
enum Ty {
    I64,
    U8,
    Str,
    Bool,
    F64,
}
const TYS: [Ty; 5] = [Ty::I64, Ty::U8, Ty::Str, Ty::Bool, Ty::F64];
const YAMLS: [(&str, Ty, &str); 4] = [("5", Ty::I64, "5"), ("hello", Ty::Str, "hello"), ("true", Ty::Bool, "true"), ("1.5", Ty::F64, "1.5")];

#[derive(Clone, Copy, Debug, PartialEq)]
enum Acc {
    Read(Ty),
    Write(Ty),
    /// a configuration naming the property (value YAMLS[i]) is included now; it is only issued
    /// while the property is present (typed): a later preset must not touch it
    Include(usize),
}

thread_local! {
    static WRITES: std::cell::Cell<u32> = const { std::cell::Cell::new(0) };
}
fn read_as(m: &ModuleRef, t: Ty) -> Result<Option<String>, String> {
    fn go<T: des::net::module::PropType + Clone + std::fmt::Debug>(m: &ModuleRef) -> Result<Option<String>, String> {
        match m.prop::<T>("x") {
            Ok(p) => {
                let got = p.get().map(|v| format!("{v:?}"));
                // the other read accessors agree with get()
                let mapped = p.map(|o| o.map(|v| format!("{v:?}")));
                assert_eq!(mapped, got, "Prop::map and Prop::get disagree");
                let up = m.prop::<T>("x").ok().and_then(|q| q.upgrade());
                assert_eq!(up.is_some(), got.is_some(), "Prop::upgrade and Prop::get disagree on presence");
                if let Some(u) = up {
                    assert_eq!(Some(format!("{:?}", u.get())), got, "get() of the upgraded handle");
                    assert_eq!(Some(u.map(|v| format!("{v:?}"))), got, "map() of the upgraded handle");
                }
                Ok(got)
            }
            Err(e) => Err(e.to_string()),
        }
    }
    match t {
        Ty::I64 => go::<i64>(m),
        Ty::U8 => go::<u8>(m),
        Ty::Str => go::<String>(m),
        Ty::Bool => go::<bool>(m),
        Ty::F64 => go::<f64>(m),
    }
}
fn write_as(m: &ModuleRef, t: Ty) -> Result<String, String> {
    fn go<T: des::net::module::PropType + Clone + std::fmt::Debug>(m: &ModuleRef, v: T) -> Result<String, String> {
        match m.prop::<T>("x") {
            Ok(p) => {
                let mut p = p.or(v.clone());
                // set and update, in turn
                if WRITES.with(|w| w.replace(w.get() + 1)) % 2 == 0 {
                    p.set(v.clone());
                } else {
                    let v2 = v.clone();
                    p.update(move |x| *x = v2);
                }
                assert_eq!(format!("{:?}", p.get()), format!("{v:?}"), "value read back through the writing handle");
                Ok(format!("{v:?}"))
            }
            Err(e) => Err(e.to_string()),
        }
    }
    match t {
        Ty::I64 => go::<i64>(m, -7),
        Ty::U8 => go::<u8>(m, 9),
        Ty::Str => go::<String>(m, "w".into()),
        Ty::Bool => go::<bool>(m, false),
        Ty::F64 => go::<f64>(m, 2.25),
    }
}

/// state of the reference: None = untyped (configured yaml or absent), Some((type, value as text))
fn check_types(yaml: Option<usize>, seq: &[Acc]) -> Result<u64, String> {
    let seq = seq.to_vec();
    let r = quiet_catch(move || -> Result<u64, String> {
        let mut sim = Sim::new(());
        if let Some(y) = yaml {
            sim.include_cfg(&format!("a.x: {}\n", YAMLS[y].0));
        }
        sim.node("a", M);
        let mut m = sim.get(&"a".into()).unwrap();
        let mut typed: Option<(Ty, Option<String>)> = None;
        let mut trace = vec![];
        for (i, acc) in seq.iter().enumerate() {
            match *acc {
                Acc::Include(y) => {
                    if typed.is_some() {
                        // alternate a specific and a wildcard entry
                        let key = if i % 2 == 0 { "a.x" } else { "<any>.x" };
                        sim.include_cfg(&format!("{key}: {}\n", YAMLS[y].0));
                        m = sim.get(&"a".into()).unwrap();
                        trace.push(format!("include {y}"));
                    }
                }
                Acc::Read(t) => {
                    let got = read_as(&m, t);
                    trace.push(format!("{got:?}"));
                    match (&typed, &got) {
                        (Some((ft, val)), Ok(v)) if *ft == t => {
                            if v != val {
                                return Err(format!("access #{i}: reading as {t:?} gave {v:?}, the property holds {val:?}"));
                            }
                        }
                        (Some((ft, _)), Err(_)) if *ft == t => return Err(format!("access #{i}: reading as its own type {t:?} failed")),
                        (Some((ft, _)), Ok(v)) => {
                            return Err(format!("access #{i}: property typed {ft:?} was read as {t:?} and gave {v:?} instead of an error"))
                        }
                        (Some(_), Err(_)) => {}
                        (None, Ok(v)) => {
                            // the first successful typed access fixes the type
                            if let Some(y) = yaml {
                                if YAMLS[y].1 == t {
                                    let exp = match t {
                                        Ty::Str => format!("{:?}", YAMLS[y].2),
                                        _ => YAMLS[y].2.to_string(),
                                    };
                                    if v.as_deref() != Some(exp.as_str()) {
                                        return Err(format!("access #{i}: configured value {} read as {t:?} gave {v:?}", YAMLS[y].0));
                                    }
                                }
                                if v.is_none() {
                                    return Err(format!("access #{i}: configured value {} read as {t:?} reports no value", YAMLS[y].0));
                                }
                                typed = Some((t, v.clone()));
                            } else if v.is_some() {
                                return Err(format!("access #{i}: absent property read as {t:?} gave {v:?}"));
                            }
                        }
                        (None, Err(_)) => {
                            if let Some(y) = yaml {
                                if YAMLS[y].1 == t {
                                    return Err(format!("access #{i}: configured value {} cannot be read as its natural type {t:?}", YAMLS[y].0));
                                }
                            } else {
                                return Err(format!("access #{i}: typing an absent property as {t:?} failed"));
                            }
                        }
                    }
                }
                Acc::Write(t) => {
                    let got = write_as(&m, t);
                    trace.push(format!("{got:?}"));
                    match (&typed, &got) {
                        (Some((ft, _)), Ok(v)) if *ft == t => typed = Some((t, Some(v.clone()))),
                        (Some((ft, _)), Ok(_)) => return Err(format!("access #{i}: property typed {ft:?} was written as {t:?} without an error")),
                        (Some((ft, _)), Err(_)) if *ft == t => return Err(format!("access #{i}: writing as its own type {t:?} failed")),
                        (Some(_), Err(_)) => {}
                        (None, Ok(v)) => typed = Some((t, Some(v.clone()))),
                        (None, Err(_)) => {
                            if yaml.is_none() || YAMLS[yaml.unwrap()].1 == t {
                                return Err(format!("access #{i}: first write as {t:?} failed"));
                            }
                        }
                    }
                }
            }
        }
        Ok(vcheck::fp(&trace))
    });
    match r {
        Err(m) => Err(format!("panicked: {m}")),
        Ok(x) => x.map_err(|e| format!("yaml {:?}, accesses {seq_dbg}: {e}", yaml.map(|y| YAMLS[y].0), seq_dbg = "see case")),
    }
}

/// Two typed handles of different types obtained while the property is absent; the first one
/// initialises it, the stale second one is then asked to supply a default: the property keeps
/// the first type and value.
fn stale_handle(t1: Ty, t2: Ty, via: u8) -> Result<u64, String> {
    quiet_catch(move || -> Result<u64, String> {
        let mut sim = Sim::new(());
        sim.node("a", M);
        let m = sim.get(&"a".into()).unwrap();
        fn init<T: des::net::module::PropType + Clone + std::fmt::Debug + Default>(m: &ModuleRef, v: T, via: u8) -> Result<(), String> {
            let p = m.prop::<T>("x").map_err(|e| e.to_string())?;
            match via {
                0 => drop(p.or(v)),
                1 => drop(p.or_else(|| v)),
                _ => drop(p.or_default()),
            }
            Ok(())
        }
        // both handles exist before anything is written
        macro_rules! with_ty {
            ($t:expr, $f:ident) => {
                match $t {
                    Ty::I64 => $f!(i64, -7i64),
                    Ty::U8 => $f!(u8, 9u8),
                    Ty::Str => $f!(String, String::from("w")),
                    Ty::Bool => $f!(bool, true),
                    Ty::F64 => $f!(f64, 2.25f64),
                }
            };
        }
        // handle of the second type, obtained now, used later
        macro_rules! second {
            ($T:ty, $v:expr) => {{
                let stale = m.prop::<$T>("x").map_err(|e| e.to_string())?;
                macro_rules! first {
                    ($U:ty, $w:expr) => {{
                        init::<$U>(&m, $w, 0)?;
                    }};
                }
                with_ty!(t1, first);
                match via {
                    0 => drop(stale.or($v)),
                    1 => drop(stale.or_else(|| $v)),
                    _ => drop(stale.or_default()),
                }
            }};
        }
        with_ty!(t2, second);
        let r1 = read_as(&m, t1);
        let r2 = read_as(&m, t2);
        let exp1 = match t1 {
            Ty::I64 => "-7".to_string(),
            Ty::U8 => "9".to_string(),
            Ty::Str => "\"w\"".to_string(),
            Ty::Bool => "true".to_string(),
            Ty::F64 => "2.25".to_string(),
        };
        if r1 != Ok(Some(exp1.clone())) {
            return Err(format!("property first initialised as {t1:?} = {exp1}; after a stale {t2:?} handle supplied a default it reads as {t1:?}: {r1:?}"));
        }
        if t1 != t2 && r2.is_ok() {
            return Err(format!("property first initialised as {t1:?}; after a stale {t2:?} handle supplied a default it can be read as {t2:?}: {r2:?}"));
        }
        Ok(vcheck::fp(&format!("{r1:?}{r2:?}")))
    })
    .map_err(|m| format!("panicked: {m}"))?
}

fn acc_alphabet() -> Vec<Acc> {
    TYS.iter().map(|t| Acc::Read(*t)).chain(TYS.iter().map(|t| Acc::Write(*t))).chain((0..YAMLS.len()).map(Acc::Include)).collect()
}

impl Property for C17 {
    fn id(&self) -> &'static str {
        "C17"
    }
    fn rule(&self, tier: Tier) -> String {
        format!(
            "every configuration of 1..=2 distinct entries, and every configuration of 3 entries over {}, whose keys are (1..3 segments from {{a, ab, b, aß, <any>}}, and the prefixes a-b, a.a-b, <any>.a-b: names that continue another name with a letter, with a multi-byte letter and with a non-alphanumeric character) ++ (x | y.z) = 316 candidate keys, in every file order of the entries, x include order {{before node creation, after, first entry before and the rest after}}, \
             on a Sim with the module tree {:?}; oracle: reference matcher from the statement (props_keys() read before any property access == names of matching entries; value is the value of a matching entry; no panic); \
             type rule: every sequence of 1..={} typed reads / writes over {{i64,u8,String,bool,f64}} and later includes of a configuration naming the property (issued while it is present: they must not touch it) on a property configured as 5 / hello / true / 1.5 / absent; \
             non-trivial = configuration in which at least one entry addresses at least one module",
            tier.pick("key triples with at most one key of three path segments", "all keys"),
            MODULE_PATHS,
            tier.pick(3, 4)
        )
    }
    fn assumptions(&self) -> Vec<String> {
        vec![
            "flat dotted keys only; nested YAML mappings, list values and keys whose property part contains <any> are outside the alphabet".into(),
            "when several entries match one property of one module the value of any of them is accepted (the statement does not rank them)".into(),
        ]
    }
    fn required_features(&self, _tier: Tier) -> Vec<&'static str> {
        vec!["prefix_sharing_siblings", "non_ascii_sibling", "wildcard_and_specific_overlap", "two_entries_one_module", "include_after_creation", "include_split", "type_sequences", "stale_handle_of_another_type"]
    }
    fn explore(&self, ctx: &mut Ctx) {
        let keys = candidate_keys();
        let nk = keys.len();
        let maxe = ctx.tier.pick(2, 3);
        // which modules each key addresses (for features / non-triviality)
        let addr: Vec<Vec<usize>> = keys
            .iter()
            .map(|k| (0..MODULE_PATHS.len()).filter(|&m| matches(k, &MODULE_PATHS[m].split('.').collect::<Vec<_>>()).is_some()).collect())
            .collect();
        let mut handle = |ctx: &mut Ctx, combo: &[usize], all_modes: bool| {
            if !ctx.mine() {
                return;
            }
            let first: Vec<&str> = combo.iter().map(|&k| keys[k][0]).collect();
            let any_addr = combo.iter().any(|&k| !addr[k].is_empty());
            for mode in [Mode::Before, Mode::After, Mode::Split] {
                if mode == Mode::Split && (combo.len() == 1 || !all_modes) {
                    continue;
                }
                ctx.out.evaluations += 1;
                ctx.out.traces += 1;
                ctx.out.states += 1;
                ctx.out.transitions += MODULE_PATHS.len() as u64;
                if any_addr {
                    ctx.out.nontrivial += 1;
                }
                if first.contains(&"a") && first.contains(&"ab") {
                    ctx.hit("prefix_sharing_siblings");
                }
                if first.contains(&"aß") && first.contains(&"a") {
                    ctx.hit("non_ascii_sibling");
                }
                if combo.iter().any(|&k| keys[k].contains(&ANY)) && combo.iter().any(|&k| !keys[k].contains(&ANY)) {
                    ctx.hit("wildcard_and_specific_overlap");
                }
                if combo.len() >= 2 && addr[combo[0]].iter().any(|m| addr[combo[1]].contains(m)) {
                    ctx.hit("two_entries_one_module");
                }
                match mode {
                    Mode::After => ctx.hit("include_after_creation"),
                    Mode::Split => ctx.hit("include_split"),
                    Mode::Before => {}
                }
                ctx.begin(|| json!({"kind": "matching", "entries": combo.iter().map(|&k| keys[k].join(".")).collect::<Vec<_>>(), "mode": format!("{mode:?}")}));
                match check(&keys, combo, mode) {
                    Ok(o) => {
                        ctx.outcome(o);
                        if combo.len() == 2 && any_addr && mode == Mode::Split {
                            ctx.sample(|| json!({"entries": combo.iter().map(|&k| keys[k].join(".")).collect::<Vec<_>>(), "mode": format!("{mode:?}")}));
                        }
                    }
                    Err(d) => ctx.violation(
                        "violation",
                        || json!({"kind": "matching", "entries": combo.iter().map(|&k| keys[k].join(".")).collect::<Vec<_>>(), "mode": format!("{mode:?}")}),
                        d,
                    ),
                }
            }
        };
        // every set of 1..3 keys, in every file order (the implementation keeps an insertion-ordered
        // mapping, so each permutation is a configuration of its own); generated lazily
        let small = |k: usize| keys[k].len() - if keys[k].ends_with(&["y", "z"]) { 2 } else { 1 } <= 2;
        for i in 0..nk {
            handle(ctx, &[i], true);
            for j in (i + 1)..nk {
                handle(ctx, &[i, j], true);
                handle(ctx, &[j, i], true);
                for l in (j + 1)..nk {
                    // quick: at most one of the three keys has three path segments
                    let deep = usize::from(!small(i)) + usize::from(!small(j)) + usize::from(!small(l));
                    if maxe >= 3 || deep <= 1 {
                        let c = [i, j, l];
                        for (pi, p) in [[0, 1, 2], [0, 2, 1], [1, 0, 2], [1, 2, 0], [2, 0, 1], [2, 1, 0]].iter().enumerate() {
                            handle(ctx, &[c[p[0]], c[p[1]], c[p[2]]], pi == 0 || maxe >= 3);
                        }
                    }
                }
            }
        }
        // a stale handle of another type supplies a default
        if ctx.is_first_shard() {
            for t1 in TYS {
                for t2 in TYS {
                    for via in 0..3u8 {
                        ctx.out.evaluations += 1;
                        ctx.hit("stale_handle_of_another_type");
                        match stale_handle(t1, t2, via) {
                            Ok(o) => ctx.outcome(o),
                            Err(d) => ctx.violation("violation", || json!({"kind": "stale_handle", "t1": format!("{t1:?}"), "t2": format!("{t2:?}"), "via": via}), d),
                        }
                    }
                }
            }
        }
        // type rule
        let alpha = acc_alphabet();
        let maxl = ctx.tier.pick(3, 4);
        for yaml in [None, Some(0), Some(1), Some(2), Some(3)] {
            let mut stack: Vec<Vec<Acc>> = alpha.iter().map(|a| vec![*a]).collect();
            while let Some(seq) = stack.pop() {
                if seq.len() < maxl {
                    for a in &alpha {
                        let mut s2 = seq.clone();
                        s2.push(*a);
                        stack.push(s2);
                    }
                }
                if seq.len() != maxl || !ctx.mine() {
                    continue;
                }
                ctx.out.evaluations += 1;
                ctx.out.traces += 1;
                ctx.out.states += 1;
                ctx.out.transitions += seq.len() as u64;
                ctx.hit("type_sequences");
                ctx.begin(|| json!({"kind": "types", "yaml": yaml, "accesses": seq.iter().map(|a| format!("{a:?}")).collect::<Vec<_>>()}));
                match check_types(yaml, &seq) {
                    Ok(o) => ctx.outcome(o),
                    Err(d) => ctx.violation(
                        "violation",
                        || json!({"kind": "types", "yaml": yaml, "accesses": seq.iter().map(|a| format!("{a:?}")).collect::<Vec<_>>()}),
                        d,
                    ),
                }
            }
        }
    }
    fn replay(&self, case: &Value) -> Result<(), String> {
        if case["kind"] == "stale_handle" {
            let ty = |s: &str| *TYS.iter().find(|t| format!("{t:?}") == s).unwrap();
            return stale_handle(ty(case["t1"].as_str().unwrap()), ty(case["t2"].as_str().unwrap()), case["via"].as_u64().unwrap() as u8).map(|_| ());
        }
        if case["kind"] == "types" {
            let yaml = case["yaml"].as_u64().map(|y| y as usize);
            let seq: Vec<Acc> = case["accesses"]
                .as_array()
                .unwrap()
                .iter()
                .map(|a| {
                    let s = a.as_str().unwrap();
                    if let Some(n) = s.strip_prefix("Include(") {
                        return Acc::Include(n.trim_end_matches(')').parse().unwrap());
                    }
                    let t = *TYS.iter().find(|t| s.contains(&format!("{t:?}"))).unwrap();
                    if s.starts_with("Read") {
                        Acc::Read(t)
                    } else {
                        Acc::Write(t)
                    }
                })
                .collect();
            return check_types(yaml, &seq).map(|_| ());
        }
        let keys = candidate_keys();
        let combo: Vec<usize> = case["entries"]
            .as_array()
            .unwrap()
            .iter()
            .map(|e| keys.iter().position(|k| k.join(".") == e.as_str().unwrap()).unwrap())
            .collect();
        let mode = match case["mode"].as_str().unwrap() {
            "Before" => Mode::Before,
            "After" => Mode::After,
            _ => Mode::Split,
        };
        check(&keys, &combo, mode).map(|_| ())
    }
}

fn main() {
    run_property(&C17);
}
