//! C10 — stepping a simulation is indistinguishable from running it uninterrupted.
//! Every event program x every step schedule (cuts by event count and by time, with and
//! without externally added events at the pauses), on the real `Runtime`.

use std::sync::Arc;
use vcheck::rtlab::*;
use vcheck::{json, quiet_catch, run_property, Ctx, Property, Tier, Value};

struct C10;

#[derive(Clone, Copy, Debug, PartialEq, Eq, Hash)]
enum Step {
    N(usize),
    Until(u64),
    /// external add while paused: 0 = at sim_time, 1 = +1ns, 2 = midway to the next pending
    /// timestamp, 3 = at the next pending timestamp, 4 = one after it
    Inject(u8),
}

fn step_json(s: Step) -> Value {
    match s {
        Step::N(k) => json!(["dispatch_n_events", k]),
        Step::Until(t) => json!(["dispatch_events_until_ns", t]),
        Step::Inject(k) => json!(["add_event_while_paused", k]),
    }
}
fn step_from(v: &Value) -> Step {
    match v[0].as_str().unwrap() {
        "dispatch_n_events" => Step::N(v[1].as_u64().unwrap() as usize),
        "dispatch_events_until_ns" => Step::Until(v[1].as_u64().unwrap()),
        _ => Step::Inject(v[1].as_u64().unwrap() as u8),
    }
}

/// Pending set derived from what was *actually* dispatched (tie-rule independent): checks that
/// `log` is a valid time-ordered, exactly-once schedule of the program plus injections.
struct Shadow<'a> {
    prog: &'a Program,
    pending: Vec<(u32, u128)>,
    done: usize,
}
impl<'a> Shadow<'a> {
    fn new(start: u64, prog: &'a Program) -> Self {
        Shadow { prog, pending: prog.roots.iter().map(|&(id, d)| (id, u128::from(start + d))).collect(), done: 0 }
    }
    fn min_time(&self) -> Option<u128> {
        self.pending.iter().map(|p| p.1).min()
    }
    /// consume log entries [done..]
    fn advance(&mut self, log: &[(u32, u128)]) -> Result<(), String> {
        while self.done < log.len() {
            let (id, t) = log[self.done];
            let Some(i) = self.pending.iter().position(|p| p.0 == id) else {
                return Err(format!("event {id} was dispatched but is not pending (lost, duplicated or never scheduled)"));
            };
            if self.pending[i].1 != t {
                return Err(format!("event {id} dispatched at {t}ns, scheduled for {}ns", self.pending[i].1));
            }
            let min = self.min_time().unwrap();
            if t != min {
                return Err(format!("event {id} dispatched at {t}ns while an event at {min}ns was pending"));
            }
            self.pending.swap_remove(i);
            if (id as usize) < self.prog.children.len() {
                for &(c, d) in &self.prog.children[id as usize] {
                    self.pending.push((c, t + u128::from(d)));
                }
            }
            self.done += 1;
        }
        Ok(())
    }
}

fn run_case(cfg: RtCfg, prog: &Arc<Program>, sched: &[Step], uninterrupted: Option<&[(u32, u128)]>) -> Result<u64, String> {
    let b = build(cfg, prog, None, None);
    let log = b.log.clone();
    let mut rt = b.rt;
    let mut sh = Shadow::new(cfg.start, prog);
    let sched = sched.to_vec();
    let prog2 = prog.clone();
    let res = quiet_catch(move || -> Result<(u128, bool), String> {
        rt.start();
        let mut inj = 100u32;
        let mut injected = false;
        for (si, st) in sched.iter().enumerate() {
            let before = log.lock().unwrap().len();
            let pending_before = sh.pending.len();
            match *st {
                Step::N(k) => {
                    rt.dispatch_n_events(k);
                    let l = log.lock().unwrap().clone();
                    sh.advance(&l).map_err(|e| format!("step {si} {st:?}: {e}"))?;
                    // events dispatched in this step = min(k, all that could ever become available):
                    // either exactly k, or fewer and then nothing is left
                    let did = l.len() - before;
                    if did > k {
                        return Err(format!("step {si}: dispatch_n_events({k}) dispatched {did} events"));
                    }
                    if did < k && !sh.pending.is_empty() {
                        return Err(format!("step {si}: dispatch_n_events({k}) dispatched only {did} events although {} remain", sh.pending.len()));
                    }
                    let _ = pending_before;
                }
                Step::Until(x) => {
                    rt.dispatch_events_until(ns(x));
                    let l = log.lock().unwrap().clone();
                    sh.advance(&l).map_err(|e| format!("step {si} {st:?}: {e}"))?;
                    if let Some(late) = l[before..].iter().find(|e| e.1 > u128::from(x)) {
                        return Err(format!("step {si}: dispatch_events_until({x}ns) dispatched event {} at {}ns", late.0, late.1));
                    }
                    if let Some(m) = sh.min_time() {
                        if m <= u128::from(x) {
                            return Err(format!("step {si}: dispatch_events_until({x}ns) returned with an event at {m}ns still pending"));
                        }
                    }
                }
                Step::Inject(k) => {
                    let now = rt.sim_time().as_nanos();
                    let next = sh.min_time();
                    let at = match k {
                        0 => now,
                        1 => now + 1,
                        2 => next.map_or(now + 2, |nt| (now + nt) / 2),
                        3 => next.unwrap_or(now + 3),
                        _ => next.unwrap_or(now + 3) + 1,
                    }
                    .max(now);
                    inj += 1;
                    injected = true;
                    let rtm = &mut rt;
                    let r = std::panic::catch_unwind(std::panic::AssertUnwindSafe(|| rtm.add_event(Ev(inj), ns(at as u64))));
                    if r.is_err() {
                        return Err(format!(
                            "step {si}: add_event at {at}ns was rejected while the paused runtime reports sim_time {now}ns (next pending event at {next:?})"
                        ));
                    }
                    sh.pending.push((inj, at));
                }
            }
            // observations while paused
            let l = log.lock().unwrap().clone();
            let exp_now = l.last().map_or(u128::from(cfg.start), |e| e.1);
            if rt.sim_time().as_nanos() != exp_now {
                return Err(format!("after step {si} {st:?}: paused runtime reports sim_time {}ns, last dispatched event was at {exp_now}ns", rt.sim_time().as_nanos()));
            }
            if rt.num_events_remaining() != sh.pending.len() {
                return Err(format!("after step {si} {st:?}: num_events_remaining() = {}, undelivered events = {}", rt.num_events_remaining(), sh.pending.len()));
            }
            if rt.num_events_scheduled() != l.len() + sh.pending.len() {
                return Err(format!("after step {si} {st:?}: num_events_scheduled() = {}, dispatched + pending = {}", rt.num_events_scheduled(), l.len() + sh.pending.len()));
            }
            if !rt.was_started() {
                return Err(format!("after step {si} {st:?}: was_started() is false on a started runtime"));
            }
            if rt.num_events_dispatched() != l.len() {
                return Err(format!("after step {si} {st:?}: num_events_dispatched() = {}, handlers run = {}", rt.num_events_dispatched(), l.len()));
            }
        }
        rt.dispatch_all();
        let l = log.lock().unwrap().clone();
        sh.advance(&l).map_err(|e| format!("final dispatch_all: {e}"))?;
        if !sh.pending.is_empty() {
            return Err(format!("dispatch_all returned with {} events undelivered", sh.pending.len()));
        }
        let (_, end, prof) = rt.finish().map_err(|e| format!("finish returned an error: {e:?}"))?;
        if prof.event_count != l.len() {
            return Err(format!("profiler counts {} events, {} were handled", prof.event_count, l.len()));
        }
        let _ = &prog2;
        Ok((end.as_nanos(), injected))
    });
    let l = b.log.lock().unwrap().clone();
    let (end, injected) = match res {
        Err(m) => return Err(format!("stepping panicked: {m}")),
        Ok(r) => r?,
    };
    let exp_end = l.last().map_or(u128::from(cfg.start), |e| e.1);
    if end != exp_end {
        return Err(format!("finish reports end time {end}ns, last dispatched timestamp {exp_end}ns"));
    }
    if !injected {
        if let Some(u) = uninterrupted {
            if u != l.as_slice() {
                return Err(format!("stepped run handled {l:?}, the uninterrupted run handled {u:?}"));
            }
        }
    }
    Ok(vcheck::fp(&l))
}

fn uninterrupted(cfg: RtCfg, prog: &Arc<Program>) -> Result<Vec<(u32, u128)>, String> {
    let b = build(cfg, prog, None, None);
    let log = b.log.clone();
    quiet_catch(move || b.rt.run()).map_err(|m| format!("uninterrupted run panicked: {m}"))?.map_err(|e| format!("{e:?}"))?;
    let l = log.lock().unwrap().clone();
    Ok(l)
}

fn step_alphabet(ts: &[u64]) -> Vec<Step> {
    let mut steps = vec![Step::N(0), Step::N(1), Step::N(2), Step::N(3)];
    let mut us = vec![];
    for &x in ts {
        if x > 0 {
            us.push(x - 1);
        }
        us.push(x);
        us.push(x + 1);
    }
    us.sort_unstable();
    us.dedup();
    steps.extend(us.into_iter().map(Step::Until));
    steps.extend((0..5).map(Step::Inject));
    steps
}

fn case_json(cfg: RtCfg, prog: &Program, sched: &[Step]) -> Value {
    json!({"n": cfg.n, "t_ns": cfg.t, "start_ns": cfg.start, "program": prog.to_json(), "schedule": sched.iter().map(|s| step_json(*s)).collect::<Vec<_>>()})
}

const CFGS: [(usize, u64); 4] = [(1, 1), (2, 3), (3, 2), (4, 5)];

impl Property for C10 {
    fn id(&self) -> &'static str {
        "C10"
    }
    fn rule(&self, tier: Tier) -> String {
        format!(
            "every event program of 1..={} events (delays {{0,1,t,Y,Y+1}}) x start in {{0,5}} x (n,t) in {:?} x every step schedule of 1..={} steps (3 steps for programs of up to 2 events) over \
             {{dispatch_n_events(0..3), dispatch_events_until(T) for T = every timestamp of the program and +-1ns, add_event while paused at sim_time / +1ns / midway / at / after the next pending timestamp}}, \
             followed by dispatch_all and finish; plus two programs of 24 events 1 ns apart beyond 2^24 s / 2^25 s of simulated time, stepped by dispatch_events_until to every (every 2nd, every 3rd) of their timestamps; oracle: the handler log is a valid exactly-once time-ordered schedule (checked against the pending set derived from what was actually dispatched), \
             per-step counts and cut positions, paused sim_time / num_events_remaining / num_events_dispatched / num_events_scheduled / was_started, paused adds accepted, and for schedules without external adds equality with the log of the real uninterrupted run; \
             non-trivial = schedule that cuts inside the run (not before the first or after the last event)",
            tier.pick(3, 4),
            CFGS,
            tier.pick(2, 3)
        )
    }
    fn assumptions(&self) -> Vec<String> {
        vec![
            "the order of externally added events relative to same-instant pending events is C03's subject and is not asserted here; runs with external adds are checked for validity (time order, exactly once, acceptance), runs without them for exact equality with the uninterrupted run".into(),
        ]
    }
    fn required_features(&self, _tier: Tier) -> Vec<&'static str> {
        vec!["cut_inside_tie_group", "cut_by_time_between_events", "paused_add_between_now_and_next", "paused_add_at_now", "schedule_without_external_add", "until_steps_beyond_2^24_seconds"]
    }
    fn explore(&self, ctx: &mut Ctx) {
        if ctx.is_first_shard() {
            // until-steps far from zero: events 1 ns apart beyond 2^24 s of simulated time (1 ns is below
            // the resolution of an f64 second count there), stepped to each of their timestamps in turn
            for (n, t, base) in [(4usize, 1_100_000_000u64, (1u64 << 24) * 1_000_000_000 + 123_456_789), (8, 99_900_000_000, (1u64 << 25) * 1_000_000_000 + 999_999_990)] {
                let cfg = RtCfg { n, t, start: 0 };
                let m = 24u32;
                let prog = Arc::new(Program { roots: (0..m).map(|j| (j, base + u64::from(j))).collect(), children: vec![vec![]; m as usize] });
                for stride in [1u64, 2, 3] {
                    let sched: Vec<Step> = (0..u64::from(m)).step_by(stride as usize).map(|j| Step::Until(base + j)).collect();
                    ctx.begin(|| case_json(cfg, &prog, &sched));
                    ctx.out.evaluations += 1;
                    ctx.out.traces += 1;
                    ctx.hit("until_steps_beyond_2^24_seconds");
                    let r = uninterrupted(cfg, &prog).and_then(|b| run_case(cfg, &prog, &sched, Some(&b)));
                    match r {
                        Ok(o) => ctx.outcome(o),
                        Err(d) => ctx.violation("violation", || case_json(cfg, &prog, &sched), d),
                    }
                }
            }
        }
        let maxm = ctx.tier.pick(3, 4);
        let maxs = ctx.tier.pick(2, 3);
        for (n, t) in CFGS {
            let y = n as u64 * t;
            let mut deltas = vec![0, 1, t, y, y + 1];
            deltas.sort_unstable();
            deltas.dedup();
            for start in [0u64, 5] {
                let cfg = RtCfg { n, t, start };
                for m in 1..=maxm {
                    let mut progs = vec![];
                    for_each_program(m, &deltas, |p| {
                        if ctx.mine() {
                            progs.push(p.clone());
                        }
                    });
                    for p in progs {
                        let prog = Arc::new(p);
                        ctx.begin(|| case_json(cfg, &prog, &[]));
                        let base = match uninterrupted(cfg, &prog) {
                            Ok(b) => b,
                            Err(d) => {
                                ctx.violation("violation", || case_json(cfg, &prog, &[]), d);
                                continue;
                            }
                        };
                        let mut ts: Vec<u64> = base.iter().map(|e| e.1 as u64).collect();
                        ts.sort_unstable();
                        ts.dedup();
                        let has_tie = base.windows(2).any(|w| w[0].1 == w[1].1);
                        let alpha = step_alphabet(&ts);
                        // all schedules of length 1..=maxs (thorough: length 3 only with at most one inject)
                        let mut stack: Vec<Vec<Step>> = alpha.iter().map(|s| vec![*s]).collect();
                        while let Some(sched) = stack.pop() {
                            // programs of up to 2 events are also stepped with 3-step schedules in the quick tier
                            if sched.len() < maxs || (sched.len() < 3 && m <= 2) {
                                for s in &alpha {
                                    if sched.len() == 2 && matches!(s, Step::Inject(_)) && sched.iter().any(|x| matches!(x, Step::Inject(_))) {
                                        continue;
                                    }
                                    let mut s2 = sched.clone();
                                    s2.push(*s);
                                    stack.push(s2);
                                }
                            }
                            ctx.out.evaluations += 1;
                            ctx.out.traces += 1;
                            ctx.out.states += 1;
                            ctx.out.transitions += sched.len() as u64;
                            let has_inj = sched.iter().any(|s| matches!(s, Step::Inject(_)));
                            if !has_inj {
                                ctx.hit("schedule_without_external_add");
                            }
                            if has_tie && sched.iter().any(|s| matches!(s, Step::N(1) | Step::N(2))) {
                                ctx.hit("cut_inside_tie_group");
                            }
                            if sched.iter().any(|s| matches!(s, Step::Until(x) if !ts.contains(x))) {
                                ctx.hit("cut_by_time_between_events");
                            }
                            if sched.contains(&Step::Inject(2)) {
                                ctx.hit("paused_add_between_now_and_next");
                            }
                            if sched.contains(&Step::Inject(0)) {
                                ctx.hit("paused_add_at_now");
                            }
                            let cuts_inside = sched.iter().any(|s| match s {
                                Step::N(k) => *k > 0 && *k < base.len(),
                                Step::Until(x) => ts.first().is_some_and(|f| x >= f) && ts.last().is_some_and(|l| x < l),
                                Step::Inject(_) => true,
                            });
                            if cuts_inside {
                                ctx.out.nontrivial += 1;
                            }
                            ctx.begin(|| case_json(cfg, &prog, &sched));
                            match run_case(cfg, &prog, &sched, Some(&base)) {
                                Ok(o) => {
                                    ctx.outcome(o);
                                    if m == 3 && sched.len() == 2 && has_inj && has_tie {
                                        ctx.sample(|| case_json(cfg, &prog, &sched));
                                    }
                                }
                                Err(d) => ctx.violation("violation", || case_json(cfg, &prog, &sched), d),
                            }
                        }
                    }
                }
            }
        }
    }
    fn replay(&self, case: &Value) -> Result<(), String> {
        let cfg = RtCfg { n: case["n"].as_u64().unwrap() as usize, t: case["t_ns"].as_u64().unwrap(), start: case["start_ns"].as_u64().unwrap() };
        let prog = Arc::new(Program::from_json(&case["program"]));
        let sched: Vec<Step> = case["schedule"].as_array().unwrap().iter().map(step_from).collect();
        let base = uninterrupted(cfg, &prog)?;
        if sched.is_empty() {
            return Ok(());
        }
        run_case(cfg, &prog, &sched, Some(&base)).map(|_| ())
    }
}

fn main() {
    run_property(&C10);
}
