//! C18 — NDL elaboration is total and the built simulation matches the description.
//! (a) conformance: every document of a bounded grammar (feature bits: inheritance, generic
//!     parameter with type argument, clusters, cluster-to-cluster / indexed / nested
//!     endpoints, links) is built into a real `Sim` and compared with an independent
//!     reference elaborator; (b) totality: every single-point textual mutation of every
//!     scalar of base documents, and a menu of semantic single-point mutations that must
//!     yield a descriptive error — never a panic.

use vcheck::{json, quiet_catch, run_property, Ctx, Property, Tier, Value};
use des::net::ndl::*;
use des::prelude::*;
use std::collections::{BTreeMap, BTreeSet};

struct Sym(String);
impl Module for Sym {}

// ---- generator-side model -------------------------------------------------
#[derive(Clone, Debug)]
struct Acc {
    name: &'static str,
    idx: Option<usize>,
}
#[derive(Clone, Debug)]
struct Conn {
    a: Vec<Acc>,
    b: Vec<Acc>,
    link: bool,
}
#[derive(Clone, Debug)]
struct Sub {
    name: &'static str,
    size: Option<usize>,
    ty: String, // concrete type name (after substitution) for expectation
    ty_txt: String, // text in the document
}
#[derive(Clone, Debug, Default)]
struct Ty {
    name: String,
    header: String,
    inherit: Option<String>,
    gates: Vec<(&'static str, Option<usize>)>,
    subs: Vec<Sub>,
    conns: Vec<Conn>,
}

fn acc(s: &'static str) -> Vec<Acc> {
    s.split('/')
        .map(|p| {
            if let Some((n, r)) = p.split_once('[') {
                Acc { name: n, idx: Some(r.trim_end_matches(']').parse().unwrap()) }
            } else {
                Acc { name: p, idx: None }
            }
        })
        .collect()
}
fn acc_txt(a: &[Acc]) -> String {
    a.iter().map(|x| x.idx.map_or(x.name.to_string(), |i| format!("{}[{}]", x.name, i))).collect::<Vec<_>>().join("/")
}

fn yaml(types: &[Ty], entry: &str) -> String {
    let mut s = format!("entry: {entry}\nmodules:\n");
    for t in types {
        s.push_str(&format!("  \"{}\":\n", t.header));
        let mut any = false;
        if let Some(i) = &t.inherit {
            s.push_str(&format!("    inherit: {i}\n"));
            any = true;
        }
        if !t.gates.is_empty() {
            any = true;
            s.push_str("    gates:\n");
            for (g, n) in &t.gates {
                s.push_str(&format!("    - {}\n", n.map_or(g.to_string(), |n| format!("{g}[{n}]"))));
            }
        }
        if !t.subs.is_empty() {
            any = true;
            s.push_str("    submodules:\n");
            for sub in &t.subs {
                s.push_str(&format!("      \"{}\": \"{}\"\n", sub.size.map_or(sub.name.to_string(), |n| format!("{}[{n}]", sub.name)), sub.ty_txt));
            }
        }
        if !t.conns.is_empty() {
            any = true;
            s.push_str("    connections:\n");
            for c in &t.conns {
                s.push_str(&format!("    - peers:\n      - \"{}\"\n      - \"{}\"\n", acc_txt(&c.a), acc_txt(&c.b)));
                if c.link {
                    s.push_str("      link: L\n");
                }
            }
        }
        if !any {
            s.push_str("    gates: []\n");
        }
    }
    s.push_str("links:\n  L:\n    latency: 0.25\n    jitter: 0.0\n    bitrate: 1000\n    queuesize: \"77\"\n");
    s
}

// ---- reference expansion --------------------------------------------------
#[derive(Default, Debug, PartialEq)]
struct Expect {
    modules: BTreeMap<String, String>,                 // path -> symbol
    gates: BTreeMap<String, BTreeSet<(String, usize, usize)>>, // path -> (name,size,pos)
    conns: BTreeSet<(String, String, bool)>,            // (gate path a, gate path b) a<b, link?
}
fn resolve_ty<'a>(types: &'a [Ty], name: &str) -> &'a Ty {
    types.iter().find(|t| t.name == name).unwrap()
}
fn all_gates(types: &[Ty], t: &Ty) -> Vec<(&'static str, Option<usize>)> {
    let mut g = t.gates.clone();
    if let Some(p) = &t.inherit {
        g.extend(all_gates(types, resolve_ty(types, p)));
    }
    g
}
fn all_subs(types: &[Ty], t: &Ty) -> Vec<Sub> {
    let mut g = t.subs.clone();
    if let Some(p) = &t.inherit {
        g.extend(all_subs(types, resolve_ty(types, p)));
    }
    g
}
fn all_conns(types: &[Ty], t: &Ty) -> Vec<Conn> {
    let mut g = vec![];
    if let Some(p) = &t.inherit {
        g.extend(all_conns(types, resolve_ty(types, p)));
    }
    g.extend(t.conns.clone());
    g
}
fn join(path: &str, seg: &str) -> String {
    if path.is_empty() {
        seg.to_string()
    } else {
        format!("{path}.{seg}")
    }
}
// expand endpoint into list of gate paths
fn expand(types: &[Ty], t: &Ty, path: &str, accs: &[Acc]) -> Vec<String> {
    let a = &accs[0];
    if accs.len() == 1 {
        let (_, size) = all_gates(types, t).into_iter().find(|g| g.0 == a.name).unwrap();
        match (size, a.idx) {
            (None, None) => vec![join(path, a.name)],
            (Some(_), Some(i)) => vec![join(path, &format!("{}[{i}]", a.name))],
            (Some(n), None) => (0..n).map(|i| join(path, &format!("{}[{i}]", a.name))).collect(),
            _ => panic!("bad access"),
        }
    } else {
        let sub = all_subs(types, t).into_iter().find(|s| s.name == a.name).unwrap();
        let st = resolve_ty(types, &sub.ty);
        let idxs: Vec<Option<usize>> = match (sub.size, a.idx) {
            (None, None) => vec![None],
            (Some(_), Some(i)) => vec![Some(i)],
            (Some(n), None) => (0..n).map(Some).collect(),
            _ => panic!("bad access"),
        };
        let mut out = vec![];
        for i in idxs {
            let seg = i.map_or(a.name.to_string(), |i| format!("{}[{i}]", a.name));
            out.extend(expand(types, st, &join(path, &seg), &accs[1..]));
        }
        out
    }
}
fn instantiate(types: &[Ty], t: &Ty, path: &str, symbol: &str, ex: &mut Expect) {
    ex.modules.insert(path.to_string(), symbol.to_string());
    let mut gs = BTreeSet::new();
    for (g, n) in all_gates(types, t) {
        let size = n.unwrap_or(1);
        for k in 0..size {
            gs.insert((g.to_string(), size, k));
        }
    }
    ex.gates.insert(path.to_string(), gs);
    for sub in all_subs(types, t) {
        let st = resolve_ty(types, &sub.ty);
        match sub.size {
            None => instantiate(types, st, &join(path, sub.name), &sub.ty, ex),
            Some(n) => {
                for k in 0..n {
                    instantiate(types, st, &join(path, &format!("{}[{k}]", sub.name)), &sub.ty, ex)
                }
            }
        }
    }
    for c in all_conns(types, t) {
        let a = expand(types, t, path, &c.a);
        let b = expand(types, t, path, &c.b);
        assert_eq!(a.len(), b.len());
        for (x, y) in a.into_iter().zip(b) {
            let (x, y) = if x < y { (x, y) } else { (y, x) };
            ex.conns.insert((x, y, c.link));
        }
    }
}

fn observe(sim: &des::net::SimBuilder<()>) -> Expect {
    let mut ex = Expect::default();
    let paths: Vec<ObjectPath> = sim.nodes().collect();
    for p in paths {
        let m = sim.get(&p).unwrap();
        let sym = m.try_as_ref::<Sym>().map(|s| s.0.clone()).unwrap_or("?".into());
        ex.modules.insert(p.to_string(), sym);
        let mut gs = BTreeSet::new();
        for g in m.gates() {
            gs.insert((g.name().to_string(), g.size(), g.pos()));
            // peers: next gate from each direction -> record direct neighbours via path_iter when endpoint, else via kind Transit: use prev/next through iteration from endpoints only
            if let Some(mut it) = g.path_iter() {
                if let Some(con) = it.next() {
                    let a = g.path().to_string();
                    let b = con.endpoint.path().to_string();
                    let link = con.channel.as_ref().map(|c| {
                        let m = c.metrics();
                        assert_eq!(m.latency, Duration::from_millis(250));
                        assert_eq!(m.bitrate, 1000);
                        assert_eq!(m.drop_behaviour, ChannelDropBehaviour::Queue(Some(77)));
                        true
                    });
                    let (x, y) = if a < b { (a, b) } else { (b, a) };
                    ex.conns.insert((x, y, link.unwrap_or(false)));
                    // continue along the chain to pick up inner hops
                    let mut prev = con.endpoint.clone();
                    for con2 in it {
                        let a = prev.path().to_string();
                        let b = con2.endpoint.path().to_string();
                        let (x, y) = if a < b { (a, b) } else { (b, a) };
                        ex.conns.insert((x, y, con2.channel.is_some()));
                        prev = con2.endpoint.clone();
                    }
                }
            }
        }
        ex.gates.insert(p.to_string(), gs);
    }
    ex
}


// ---- document generator (feature bits) -------------------------------------------------

const NBITS: u32 = 16;

fn gen(bits: u32) -> Vec<Ty> {
    let f = |k: u32| bits & (1 << k) != 0;
    let mut types: Vec<Ty> = vec![];
    let mut leaf = Ty { name: "Leaf".into(), header: "Leaf".into(), ..Default::default() };
    leaf.gates.push(("g", None));
    if f(0) {
        leaf.gates.push(("h", Some(2)));
    }
    types.push(leaf);
    let mut leaf2 = Ty { name: "Leaf2".into(), header: "Leaf2".into(), inherit: Some("Leaf".into()), ..Default::default() };
    leaf2.gates.push(("n", None));
    types.push(leaf2);
    let generic = f(1);
    let inner_concrete = if f(2) { "Leaf2" } else { "Leaf" };
    // with bit 11 a generic Mid has a second parameter, bound to the *other* leaf type
    let two_params = generic && f(11);
    let other_concrete = if f(2) { "Leaf" } else { "Leaf2" };
    let mut mid = Ty {
        name: "Mid".into(),
        header: if two_params {
            "Mid(T <- Leaf, A <- Leaf)".into()
        } else if generic {
            "Mid(T <- Leaf)".into()
        } else {
            "Mid".into()
        },
        ..Default::default()
    };
    mid.gates.push(("dn", Some(2)));
    mid.gates.push(("up", None));
    mid.subs.push(Sub { name: "s", size: None, ty: inner_concrete.into(), ty_txt: if generic { "T".into() } else { inner_concrete.into() } });
    if f(11) {
        // a second (and a clustered third) field typed with the same parameter / type
        if two_params {
            mid.subs.push(Sub { name: "s2", size: None, ty: other_concrete.into(), ty_txt: "A".into() });
        } else {
            mid.subs.push(Sub { name: "s2", size: None, ty: inner_concrete.into(), ty_txt: if generic { "T".into() } else { inner_concrete.into() } });
        }
        mid.subs.push(Sub { name: "sc", size: Some(2), ty: inner_concrete.into(), ty_txt: if generic { "T".into() } else { inner_concrete.into() } });
    }
    if f(3) {
        mid.subs.push(Sub { name: "k", size: Some(2), ty: "Leaf".into(), ty_txt: "Leaf".into() });
    }
    if f(4) {
        mid.conns.push(Conn { a: acc("s/g"), b: acc("up"), link: f(10) });
    }
    if f(3) && f(5) {
        mid.conns.push(Conn { a: acc("k/g"), b: acc("dn"), link: false });
    }
    if f(3) && f(6) && !f(5) {
        mid.conns.push(Conn { a: acc("k[1]/g"), b: acc("dn[0]"), link: true });
    }
    types.push(mid);
    let mut main = Ty { name: "Main".into(), header: "Main".into(), ..Default::default() };
    main.subs.push(Sub {
        name: "m",
        size: None,
        ty: "Mid".into(),
        ty_txt: if two_params {
            format!("Mid({inner_concrete}, {other_concrete})")
        } else if generic {
            format!("Mid({inner_concrete})")
        } else {
            "Mid".into()
        },
    });
    main.subs.push(Sub { name: "a", size: None, ty: "Leaf".into(), ty_txt: "Leaf".into() });
    main.subs.push(Sub { name: "c", size: Some(2), ty: if f(7) { "Leaf2".into() } else { "Leaf".into() }, ty_txt: if f(7) { "Leaf2".into() } else { "Leaf".into() } });
    if f(12) {
        // clusters of size one, addressed without and with an index
        main.subs.push(Sub { name: "e", size: Some(1), ty: "Leaf".into(), ty_txt: "Leaf".into() });
        main.subs.push(Sub { name: "e2", size: Some(1), ty: "Leaf".into(), ty_txt: "Leaf".into() });
        main.conns.push(Conn { a: acc("e/g"), b: acc("e2/g"), link: f(10) });
    }
    if f(13) {
        // a parent type with gates, a submodule and a connection; the child inherits everything and
        // (bit 14) adds a submodule and a connection of its own or nothing at all
        let mut base = Ty { name: "Base".into(), header: "Base".into(), ..Default::default() };
        base.gates.push(("p", Some(2)));
        base.subs.push(Sub { name: "k", size: None, ty: "Leaf".into(), ty_txt: "Leaf".into() });
        base.conns.push(Conn { a: acc("k/g"), b: acc("p[0]"), link: f(10) });
        types.push(base);
        let mut top = Ty { name: "Top".into(), header: "Top".into(), inherit: Some("Base".into()), ..Default::default() };
        if f(14) {
            top.subs.push(Sub { name: "z", size: None, ty: "Leaf".into(), ty_txt: "Leaf".into() });
            top.conns.push(Conn { a: acc("z/g"), b: acc("p[1]"), link: false });
        }
        if f(15) {
            // the child restates a connection it inherits (same pair, same link: one connection)
            top.conns.push(Conn { a: acc("k/g"), b: acc("p[0]"), link: f(10) });
        }
        types.push(top);
        main.subs.push(Sub { name: "t", size: None, ty: "Top".into(), ty_txt: "Top".into() });
        if f(12) {
            // a second level of inheritance that adds one gate
            let mut top2 = Ty { name: "Top2".into(), header: "Top2".into(), inherit: Some("Top".into()), ..Default::default() };
            top2.gates.push(("w", None));
            types.push(top2);
            main.subs.push(Sub { name: "t2", size: None, ty: "Top2".into(), ty_txt: "Top2".into() });
        }
    }
    if generic && f(12) {
        // an interface whose submodule is itself an instantiated generic; the argument declares the very same field
        let mut wrap = Ty { name: "Wrap".into(), header: "Wrap(W <- Leaf)".into(), ..Default::default() };
        wrap.subs.push(Sub { name: "w", size: None, ty: "Leaf".into(), ty_txt: "W".into() });
        types.push(wrap);
        let mut iface = Ty { name: "IfaceW".into(), header: "IfaceW".into(), ..Default::default() };
        iface.subs.push(Sub { name: "m", size: None, ty: "Wrap".into(), ty_txt: "Wrap(Leaf)".into() });
        types.push(iface);
        let mut imp = Ty { name: "ImplW".into(), header: "ImplW".into(), ..Default::default() };
        imp.subs.push(Sub { name: "m", size: None, ty: "Wrap".into(), ty_txt: "Wrap(Leaf)".into() });
        types.push(imp);
        let mut gen2 = Ty { name: "Gen2".into(), header: "Gen2(G <- IfaceW)".into(), ..Default::default() };
        gen2.subs.push(Sub { name: "g", size: None, ty: "ImplW".into(), ty_txt: "G".into() });
        types.push(gen2);
        main.subs.push(Sub { name: "gx", size: None, ty: "Gen2".into(), ty_txt: "Gen2(ImplW)".into() });
    }
    if f(8) {
        main.conns.push(Conn { a: acc("a/g"), b: acc("m/up"), link: false });
    }
    if f(8) && f(15) {
        // the same pair stated twice; m/up is a pass-through gate that Mid may wire inwards (bit 4)
        main.conns.push(Conn { a: acc("a/g"), b: acc("m/up"), link: false });
    }
    if f(9) {
        main.conns.push(Conn { a: acc("c/g"), b: acc("m/dn"), link: f(10) });
    }
    if f(9) && f(15) {
        // a group statement restated for one index
        main.conns.push(Conn { a: acc("c[1]/g"), b: acc("m/dn[1]"), link: f(10) });
    }
    if f(0) && f(9) {
        main.conns.push(Conn { a: acc("c[0]/h[1]"), b: acc("a/h[0]"), link: false });
    }
    if f(0) && f(15) {
        // endpoints three segments deep: a grandchild's gate, plain and through clusters
        main.conns.push(Conn { a: acc("m/s/h[0]"), b: acc("a/h[1]"), link: f(10) });
        if f(3) {
            main.conns.push(Conn { a: acc("m/k/h[1]"), b: acc("c/h[0]"), link: false });
        }
    }
    types.push(main);
    types
}

macro_rules! registry {
    () => {
        Registry::new()
            .symbol_fn("Main", |_| Sym("Main".into()))
            .symbol_fn("Mid", |_| Sym("Mid".into()))
            .symbol_fn("Leaf", |_| Sym("Leaf".into()))
            .symbol_fn("Leaf2", |_| Sym("Leaf2".into()))
            .symbol_fn("Other", |_| Sym("Other".into()))
            .symbol_fn("Base", |_| Sym("Base".into()))
            .symbol_fn("Top", |_| Sym("Top".into()))
            .symbol_fn("Top2", |_| Sym("Top2".into()))
            .symbol_fn("Wrap", |_| Sym("Wrap".into()))
            .symbol_fn("IfaceW", |_| Sym("IfaceW".into()))
            .symbol_fn("ImplW", |_| Sym("ImplW".into()))
            .symbol_fn("Gen2", |_| Sym("Gen2".into()))
    };
}

fn conform(bits: u32) -> Result<u64, String> {
    let types = gen(bits);
    let doc = yaml(&types, "Main");
    let mut ex = Expect::default();
    // every 16th document is built as a module block below the scope `site` of a simulation
    // that already has other nodes (Ndl::from_str + Sim::node) instead of nodes_from_ndl
    let scoped = bits % 16 == 5;
    instantiate(&types, resolve_ty(&types, "Main"), if scoped { "site" } else { "" }, "Main", &mut ex);
    if scoped {
        ex.modules.insert("other".into(), "Leaf".into());
        ex.gates.insert("other".into(), BTreeSet::new());
    }
    let d2 = doc.clone();
    let res = quiet_catch(move || -> Result<Expect, String> {
        let mut sim = Sim::new(());
        if scoped {
            sim.node("other", Sym("Leaf".into()));
            let mut reg = registry!();
            let ndl = Ndl::from_str(&mut reg, &d2).map_err(|e| format!("elaborating a realisable description failed: {e}"))?;
            sim.node("site", ndl).map_err(|e| format!("building a realisable description below a scope failed: {e}"))?;
        } else {
            let def: Def = serde_yml::from_str(&d2).map_err(|e| format!("document does not parse: {e}"))?;
            sim.nodes_from_ndl(&def, registry!()).map_err(|e| format!("building a realisable description failed: {e}"))?;
        }
        Ok(observe(&sim))
    });
    let got = match res {
        Err(m) => return Err(format!("panicked: {m}\n{doc}")),
        Ok(r) => r.map_err(|e| format!("{e}\n{doc}"))?,
    };
    if got.modules != ex.modules {
        return Err(format!("built modules (path -> software) {:?} differ from the description's {:?}\n{doc}", got.modules, ex.modules));
    }
    if got.gates != ex.gates {
        return Err(format!("built gate clusters {:?} differ from the description's {:?}\n{doc}", got.gates, ex.gates));
    }
    if got.conns != ex.conns {
        return Err(format!("built connections {:?} differ from the description's {:?}\n{doc}", got.conns, ex.conns));
    }
    Ok(vcheck::fp(&(format!("{:?}", got.modules), format!("{:?}", got.conns))))
}

// ---- totality --------------------------------------------------------------------------

#[derive(Debug, PartialEq)]
enum Outcome {
    Built(usize),
    Error(String),
    /// panic while parsing or elaborating (always a violation)
    Panic(String),
    /// panic while instantiating an elaborated network whose wiring/naming/link parameters
    /// violate the statement's own preconditions (tolerated)
    BuildPreconditionPanic(String),
}

/// build-phase panics that are the documented reaction to descriptions outside the
/// statement's precondition ("wiring realisable, link parameters numeric and non-negative",
/// unique non-empty submodule names)
fn is_precondition_panic(msg: &str) -> bool {
    msg.contains("Cannot connect gate to itself")
        || msg.contains("already exists")
        || msg.contains("ParseIntError")
        || msg.contains("ParseFloatError")
        || msg.contains("allready connected to multiple points")
        || msg.contains("cannot convert float seconds to Duration")
}

fn try_doc(doc: &str) -> Outcome {
    let d = doc.to_string();
    let elaborated = quiet_catch(move || -> Result<Def, String> {
        let def: Def = serde_yml::from_str(&d).map_err(|e| format!("parse: {e}"))?;
        let _net = des_net_utils::ndl::transform(&def).map_err(|e| format!("transform: {e}"))?;
        Ok(def)
    });
    let def = match elaborated {
        Err(m) => return Outcome::Panic(m),
        Ok(Err(e)) => return Outcome::Error(e),
        Ok(Ok(def)) => def,
    };
    let r = quiet_catch(move || -> Result<usize, String> {
        let mut sim = Sim::new(());
        let reg = Registry::new().with_default_fallback();
        sim.nodes_from_ndl(&def, reg).map_err(|e| format!("build: {e}"))?;
        Ok(sim.nodes().count())
    });
    match r {
        Ok(Ok(n)) => Outcome::Built(n),
        Ok(Err(e)) => Outcome::Error(e),
        // Instantiation is only promised to succeed for realisable descriptions (that promise is
        // checked on the generated, valid documents by the conformance part). A garbled scalar may
        // elaborate and still be unrealisable, so a build-phase panic is counted, not judged.
        Err(m) => {
            let _ = is_precondition_panic(&m);
            Outcome::BuildPreconditionPanic(m)
        }
    }
}

const BASES: &[&str] = &[
    "entry: Main\nmodules:\n  Main:\n    gates:\n    - up\n    submodules:\n      a: Leaf\n      c[2]: Leaf\n      m: Mid\n    connections:\n    - peers:\n      - a/g\n      - up\n    - peers:\n      - c/g\n      - m/dn\n      link: L\n    - peers:\n      - c[1]/h[0]\n      - m/s/g\n  Mid:\n    gates:\n    - dn[2]\n    submodules:\n      s: Leaf\n  Leaf:\n    gates:\n    - g\n    - h[2]\nlinks:\n  L:\n    latency: 0.1\n    jitter: 0.0\n    bitrate: 1000\n",
    "entry: A\nmodules:\n  A:\n    submodules:\n      b: B(C2)\n  B(Inner <- C):\n    submodules:\n      c: Inner\n    gates:\n    - x\n    connections:\n    - peers:\n      - c/port\n      - x\n  C:\n    gates:\n    - port\n  C2:\n    inherit: C\n    gates:\n    - new\n",
    "entry: A\nmodules:\n  A:\n    submodules:\n      b: B(C)\n      g: G(C)\n  B(Inner <- C):\n    submodules:\n      c: Inner\n  G(T <- C):\n    submodules:\n      t: T\n  C:\n    gates:\n    - port\n",
    "entry: Top\nmodules:\n  Base:\n    gates:\n    - p[2]\n    submodules:\n      k: Leaf\n    connections:\n    - peers:\n      - k/g\n      - p[0]\n  Top:\n    inherit: Base\n    submodules:\n      z: Leaf\n    connections:\n    - peers:\n      - z/g\n      - p[1]\n  Leaf:\n    gates:\n    - g\n",
];

const MUTS: &[&str] = &[
    "", "X", "Leaf", "Leaf2", "Main", "g", "g[", "g]", "g[x]", "g[0]", "g[1]", "g[2]", "g[3]", "g[-1]", "[2]", "c[0]", "c[2]", "c[3]", "c[1]/g", "a/", "/g", "a//g", "a/g/h", "m/s/q", "m/q/g", "A(", "A(T", "A(T <- ", "A(T <- B", "A)", "A()", "B(C)", "B(C, C)", "B(B(C))", "B(Inner)",
    "B(G)", "G(B)", "G(C)", "G", "T", "Inner", "B(X <- C, X <- C)", "Inner(C)", "T(Leaf)", "Mid(T)", "Mid(Mid)", "Mid(Leaf", "Mid(T <- Leaf", "T <- ", "<- C", "(", ")", "L", "K", "0", "-1", "1e400", "nan", "~", "[]", "{}", "up", "dn", "dn[2]", "m/dn[0]", "m/dn[5]", "Top", "Base", "Mid", "C", "C2", "A", "B", "ß", "aß[1]",
];

/// every (line, span) of a YAML document that holds a scalar (key, value or list item)
fn spans(doc: &str) -> Vec<(usize, usize, usize)> {
    let mut out = vec![];
    for (li, line) in doc.lines().enumerate() {
        let indent = line.len() - line.trim_start().len();
        let body = line.trim_start();
        if let Some(rest) = body.strip_prefix("- ") {
            if let Some(p) = rest.find(": ") {
                out.push((li, indent + 2, indent + 2 + p));
                out.push((li, indent + 2 + p + 2, line.len()));
            } else if !rest.ends_with(':') {
                out.push((li, indent + 2, line.len()));
            }
        } else if let Some(p) = body.find(": ") {
            out.push((li, indent, indent + p));
            out.push((li, indent + p + 2, line.len()));
        } else if body.ends_with(':') {
            out.push((li, indent, line.len() - 1));
        }
    }
    out
}

fn mutate(doc: &str, li: usize, a: usize, b: usize, m: &str) -> String {
    let mut out = String::new();
    for (k, line) in doc.lines().enumerate() {
        if k == li {
            out.push_str(&line[..a]);
            if m.is_empty() || m.contains(|c: char| " <-(),[]{}~/".contains(c)) {
                out.push('"');
                out.push_str(m);
                out.push('"');
            } else {
                out.push_str(m);
            }
            out.push_str(&line[b..]);
        } else {
            out.push_str(line);
        }
        out.push('\n');
    }
    out
}

/// semantic single-point mutations of a valid generated description that must be rejected
/// with an error (the statement's list of error causes)
const SEM: &[&str] = &[
    "dangling_type", "dangling_gate", "dangling_submodule", "index_out_of_bounds", "index_on_non_cluster", "zero_sized_cluster", "unequal_cluster_sizes",
    "inherit_cycle", "submodule_cycle", "wrong_arg_count", "args_on_non_generic", "non_conforming_arg", "generic_type_as_arg", "binding_with_args", "dangling_link", "unknown_entry", "unclosed_type_clause", "arg_differs_in_nested_generic_argument", "zero_sized_cluster_of_instantiated_generic", "too_few_type_arguments",
];

fn sem_mutant(bits: u32, which: &str) -> Option<String> {
    let mut t = gen(bits);
    let generic = bits & 2 != 0;
    let find = |t: &mut Vec<Ty>, n: &str| t.iter().position(|x| x.name == n).unwrap();
    let (leaf, mid, main) = (find(&mut t, "Leaf"), find(&mut t, "Mid"), find(&mut t, "Main"));
    let mut entry = "Main";
    let mut post: Option<(&str, &str)> = None;
    match which {
        "dangling_type" => t[main].subs[1].ty_txt = "Nope".into(),
        "dangling_gate" => t[main].conns.push(Conn { a: acc("a/zz"), b: acc("c[0]/g"), link: false }),
        "dangling_submodule" => t[main].conns.push(Conn { a: acc("q/g"), b: acc("c[0]/g"), link: false }),
        "index_out_of_bounds" => t[main].conns.push(Conn { a: acc("c[2]/g"), b: acc("a/g"), link: false }),
        "index_on_non_cluster" => t[main].conns.push(Conn { a: acc("a[0]/g"), b: acc("c[0]/g"), link: false }),
        "zero_sized_cluster" => t[main].subs[2].size = Some(0),
        "unequal_cluster_sizes" => t[main].conns.push(Conn { a: acc("c/g"), b: acc("a/g"), link: false }),
        "inherit_cycle" => t[leaf].inherit = Some("Leaf2".into()),
        "submodule_cycle" => t[leaf].subs.push(Sub { name: "r", size: None, ty: "Main".into(), ty_txt: "Main".into() }),
        "wrong_arg_count" if generic => t[main].subs[0].ty_txt = "Mid(Leaf, Leaf, Leaf)".into(),
        "wrong_arg_count" => return None,
        "args_on_non_generic" if !generic => t[main].subs[0].ty_txt = "Mid(Leaf)".into(),
        "args_on_non_generic" => return None,
        "non_conforming_arg" if generic => {
            t.insert(0, Ty { name: "Other".into(), header: "Other".into(), gates: vec![("zz", None)], ..Default::default() });
            let main = find(&mut t, "Main");
            t[main].subs[0].ty_txt = "Mid(Other)".into();
        }
        "non_conforming_arg" => return None,
        "generic_type_as_arg" if generic => t[main].subs[0].ty_txt = "Mid(Mid)".into(),
        "generic_type_as_arg" => return None,
        "binding_with_args" if generic => t[mid].subs[0].ty_txt = "T(Leaf)".into(),
        "binding_with_args" => return None,
        "dangling_link" => {
            if !yaml(&t, entry).contains("link: L") {
                return None;
            }
            post = Some(("link: L", "link: K"));
        }
        "unknown_entry" => entry = "Nope",
        "zero_sized_cluster_of_instantiated_generic" if generic => {
            // an unwired spare cluster of size 0 whose type carries a type argument
            let txt = t[main].subs[0].ty_txt.clone();
            t[main].subs.push(Sub { name: "spare", size: Some(0), ty: "Mid".into(), ty_txt: txt });
        }
        "zero_sized_cluster_of_instantiated_generic" => return None,
        "too_few_type_arguments" if generic && bits & (1 << 11) != 0 => t[main].subs[0].ty_txt = "Mid(Leaf)".into(),
        "too_few_type_arguments" => return None,
        "arg_differs_in_nested_generic_argument" => {
            // the argument's field has the same generic type as the interface's, instantiated differently
            let Some(i) = t.iter().position(|x| x.name == "ImplW") else { return None };
            t[i].subs[0].ty_txt = "Wrap(Leaf2)".into();
        }
        "unclosed_type_clause" if generic => t[main].subs[0].ty_txt = "Mid(Leaf".into(),
        "unclosed_type_clause" => return None,
        _ => unreachable!(),
    }
    let mut doc = yaml(&t, entry);
    if let Some((a, b)) = post {
        doc = doc.replacen(a, b, 1);
    }
    Some(doc)
}

struct C18;

impl Property for C18 {
    fn id(&self) -> &'static str {
        "C18"
    }
    fn rule(&self, tier: Tier) -> String {
        format!(
            "conformance: all 2^{NBITS} = 65536 documents of the feature-bit grammar (cluster gates, generic Mid with one or two type arguments (bound to different types; the two parameters are declared in non-alphabetical order), inherited argument type, several fields typed with the same parameter, submodule clusters incl. size one, a type inheriting gates / submodules / connections with and without own additions, a second level of inheritance, a generic whose interface contains an instantiated generic submodule, nested/cluster/indexed connections with and without link, inherited cluster element type, cluster-to-cluster and indexed connections at the top level, the same gate pair stated twice: verbatim, as an indexed restatement of a group statement, and by a child type restating an inherited connection, endpoints three segments deep (a grandchild's gate, plain and through clusters)) built with nodes_from_ndl (every 16th document: as an Ndl module block below a scope of a simulation that already has a node) and compared with a reference elaborator (modules with registered software, gate clusters, connections incl. link metrics and queue size); \
             semantic mutations: {} single-point mutations (one per error cause of the statement) applied to {} generated documents, each must yield an error; \
             textual mutations: every scalar of {} base documents replaced by each of {} garbled/dangling tokens, outcome must be a network or an error, never a panic; \
             non-trivial = document that has at least one connection (conformance) or every mutated document (totality)",
            SEM.len(),
            tier.pick("the 8192 documents without the inheritance bits of the", "all 65536"),
            tier.pick("4 hand-written + 64 generated".to_string(), "4 hand-written + all 8192 generated".to_string()),
            MUTS.len()
        )
    }
    fn assumptions(&self) -> Vec<String> {
        vec![
            "documents come from the bounded grammar; name clashes between inherited and own fields, a gate connected to itself and the empty submodule name are outside it".into(),
            "for textual mutations only totality is asserted (the expected error class of an arbitrary garbled scalar is not defined by the statement)".into(),
        ]
    }
    fn required_features(&self, _tier: Tier) -> Vec<&'static str> {
        vec!["conformance_docs", "conformance_docs_with_generic_and_inherited_arg", "semantic_mutants", "textual_mutants", "textual_mutants_rejected", "textual_mutants_accepted"]
    }
    fn explore(&self, ctx: &mut Ctx) {
        // (a) conformance
        for bits in 0u32..(1 << NBITS) {
            if !ctx.mine() {
                continue;
            }
            ctx.out.evaluations += 1;
            ctx.out.traces += 1;
            ctx.out.states += 1;
            ctx.out.transitions += 1;
            ctx.hit("conformance_docs");
            if bits & 0b110 == 0b110 {
                ctx.hit("conformance_docs_with_generic_and_inherited_arg");
            }
            if bits & ((1 << 4) | (1 << 5) | (1 << 8) | (1 << 9)) != 0 {
                ctx.out.nontrivial += 1;
            }
            ctx.begin(|| json!({"kind": "conformance", "bits": bits}));
            match conform(bits) {
                Ok(o) => {
                    ctx.outcome(o);
                    if bits == 0b1111_1101_1111 {
                        ctx.sample(|| json!({"kind": "conformance", "bits": bits, "document": yaml(&gen(bits), "Main")}));
                    }
                }
                Err(d) => ctx.violation("violation", || json!({"kind": "conformance", "bits": bits}), d),
            }
        }
        // (b1) semantic mutations
        let step = 1;
        let sem_limit: u32 = ctx.tier.pick(1 << 13, 1 << NBITS);
        for bits in (0u32..sem_limit).step_by(step) {
            // vary the sampled documents so that every feature bit is on in some of them
            let bits = if step > 1 { bits ^ ((bits >> 4) & 0xf) } else { bits };
            for which in SEM {
                if !ctx.mine() {
                    continue;
                }
                let Some(doc) = sem_mutant(bits, which) else { continue };
                ctx.out.evaluations += 1;
                ctx.out.traces += 1;
                ctx.out.states += 1;
                ctx.out.transitions += 1;
                ctx.out.nontrivial += 1;
                ctx.hit("semantic_mutants");
                ctx.begin(|| json!({"kind": "semantic", "bits": bits, "mutation": which}));
                match try_doc(&doc) {
                    Outcome::Error(e) => ctx.outcome(vcheck::fp(&(which, e.split(':').next().map(str::to_string)))),
                    Outcome::Built(n) => ctx.violation(
                        "violation",
                        || json!({"kind": "semantic", "bits": bits, "mutation": which}),
                        format!("description with mutation '{which}' was accepted and built {n} modules instead of yielding an error\n{doc}"),
                    ),
                    Outcome::Panic(m) | Outcome::BuildPreconditionPanic(m) => ctx.violation(
                        "violation",
                        || json!({"kind": "semantic", "bits": bits, "mutation": which}),
                        format!("description with mutation '{which}' panicked: {m}\n{doc}"),
                    ),
                }
            }
        }
        // (b2) textual mutations of every scalar
        let mut bases: Vec<String> = BASES.iter().map(|s| (*s).to_string()).collect();
        let ngen = ctx.tier.pick(64, 8192);
        let span = 1usize << NBITS;
        for k in 0..ngen {
            let bits = (k * (span / ngen) + if ngen < 8192 { (k % 7) * 37 } else { 0 }) as u32 & ((1 << NBITS) - 1);
            bases.push(yaml(&gen(bits), "Main"));
        }
        for (bi, base) in bases.iter().enumerate() {
            for (li, a, b) in spans(base) {
                for (mi, m) in MUTS.iter().enumerate() {
                    if !ctx.mine() {
                        continue;
                    }
                    let doc = mutate(base, li, a, b, m);
                    ctx.out.evaluations += 1;
                    ctx.out.traces += 1;
                    ctx.out.states += 1;
                    ctx.out.transitions += 1;
                    ctx.out.nontrivial += 1;
                    ctx.hit("textual_mutants");
                    ctx.begin(|| json!({"kind": "textual", "base": bi, "line": li, "from": a, "to": b, "mutant": mi, "document": doc}));
                    match try_doc(&doc) {
                        Outcome::Error(e) => {
                            ctx.hit("textual_mutants_rejected");
                            ctx.outcome(vcheck::fp(&e.chars().take(24).collect::<String>()));
                        }
                        Outcome::Built(n) => {
                            ctx.hit("textual_mutants_accepted");
                            ctx.outcome(n as u64);
                        }
                        Outcome::BuildPreconditionPanic(_) => ctx.hit("textual_mutants_outside_build_precondition"),
                        Outcome::Panic(msg) => ctx.violation(
                            "violation",
                            || json!({"kind": "textual", "base": bi, "line": li, "from": a, "to": b, "mutant": mi, "document": doc}),
                            format!("elaboration panicked: {msg}\n{doc}"),
                        ),
                    }
                }
            }
        }
    }
    fn replay(&self, case: &Value) -> Result<(), String> {
        match case["kind"].as_str().unwrap() {
            "conformance" => conform(case["bits"].as_u64().unwrap() as u32).map(|_| ()),
            "semantic" => {
                let which = case["mutation"].as_str().unwrap();
                let doc = sem_mutant(case["bits"].as_u64().unwrap() as u32, SEM.iter().find(|s| **s == which).unwrap()).ok_or("mutation not applicable")?;
                match try_doc(&doc) {
                    Outcome::Error(_) => Ok(()),
                    o => Err(format!("mutation '{which}': {o:?}\n{doc}")),
                }
            }
            _ => match try_doc(case["document"].as_str().unwrap()) {
                Outcome::Panic(m) => Err(format!("elaboration panicked: {m}")),
                _ => Ok(()),
            },
        }
    }
}

fn main() {
    run_property(&C18);
}
