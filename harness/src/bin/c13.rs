//! C13 — a panicking module is contained, attributed and does not disturb other modules.
//! Fault enumeration: every placement of one or two panics (module x callback x occurrence)
//! x both stereotypes in a 4-module simulation; differential oracle against the real run in
//! which the faulty module merely falls silent at the same point; follow-up simulation in the
//! same process after every faulty run.

use des::net::module::Stereotyp;
use des::prelude::*;
use std::sync::{Arc, Mutex};
use vcheck::{json, quiet_catch, run_property, Ctx, Property, Tier, Value};

struct C13;

type Log = Arc<Mutex<Vec<String>>>;
fn lg(l: &Log, s: String) {
    l.lock().unwrap().push(format!("{}@{}", s, SimTime::now().as_millis()));
}

#[derive(Clone, Copy, PartialEq, Eq, Debug)]
enum Where {
    None,
    Start(usize),
    Msg(u32),
    End,
    Task,
    /// the joined task panics at 2 s; at its 4th message the module itself shuts down
    TaskThenShutdown,
    /// ... shuts down and restarts one second later
    TaskThenRestart,
    /// the module restarts itself (requested at its 2nd message, one second later) and the
    /// restarted incarnation panics in this start stage, i.e. inside its restart event
    RestartStage(usize),
    /// the module shuts itself down (no panic) at its 2nd message and panics in at_sim_end
    EndAfterShutdown,
    /// two tasks registered with try_join: one that finishes at once, then one that panics at 2 s
    TryJoinPair,
    /// at its n-th message the callback hands work to a task of the module (a channel the task
    /// reads and forwards to another module) and panics afterwards
    MsgFeedsTask(u32),
}
const PLACES: [Where; 16] = [Where::None, Where::MsgFeedsTask(2), Where::Start(0), Where::Start(1), Where::Msg(1), Where::Msg(2), Where::Msg(3), Where::Msg(5), Where::End, Where::Task, Where::TaskThenShutdown, Where::TaskThenRestart, Where::RestartStage(0), Where::RestartStage(1), Where::EndAfterShutdown, Where::TryJoinPair];

struct P {
    log: Log,
    name: &'static str,
    fault: Where,
    silent_variant: bool,
    n: u32,
    silent: bool,
    catching: bool,
    out: bool,
    went_down: bool,
    inc: u32,
    feed: Option<tokio::sync::mpsc::UnboundedSender<u32>>,
}
impl Module for P {
    fn num_sim_start_stages(&self) -> usize {
        2
    }
    fn at_sim_start(&mut self, st: usize) {
        if self.catching {
            current().set_stereotyp(Stereotyp { on_panic_catch: true, ..Default::default() });
        }
        if st == 0 {
            self.inc += 1;
        }
        if self.silent {
            return;
        }
        lg(&self.log, format!("{}:start{st}", self.name));
        if st == 0 {
            schedule_in(Message::default().kind(9), Duration::from_secs(1));
        }
        if st == 1 {
            // a task with timers: its wake-ups must stop when the module is deactivated
            let l = self.log.clone();
            let name = self.name;
            tokio::spawn(async move {
                for i in 0..6 {
                    des::time::sleep(Duration::from_millis(1500)).await;
                    lg(&l, format!("{name}:tick{i}"));
                }
            });
        }
        if st == 1 && matches!(self.fault, Where::MsgFeedsTask(_)) {
            let (tx, mut rx) = tokio::sync::mpsc::unbounded_channel::<u32>();
            self.feed = Some(tx);
            let l = self.log.clone();
            let name = self.name;
            tokio::spawn(async move {
                while let Some(k) = rx.recv().await {
                    lg(&l, format!("{name}:fed{k}"));
                    send(Message::default().kind(3), "out");
                }
            });
        }
        if self.fault == Where::RestartStage(st) && self.inc == 2 {
            if self.silent_variant {
                self.silent = true;
                current().shutdown();
            } else {
                panic!("boom")
            }
        }
        if self.fault == Where::Start(st) {
            if self.silent_variant {
                self.silent = true;
                current().shutdown();
            } else {
                panic!("boom")
            }
        }
        if st == 1 && self.fault == Where::TryJoinPair {
            let sv = self.silent_variant;
            current().try_join(tokio::spawn(async {}));
            current().try_join(tokio::spawn(async move {
                des::time::sleep(Duration::from_secs(2)).await;
                assert!(sv, "taskboom");
            }));
            current().try_join(tokio::spawn(std::future::pending::<()>()));
        }
        if st == 1 && matches!(self.fault, Where::Task | Where::TaskThenShutdown | Where::TaskThenRestart) && !self.went_down {
            let sv = self.silent_variant;
            let h = tokio::spawn(async move {
                des::time::sleep(Duration::from_secs(2)).await;
                assert!(sv, "taskboom");
            });
            current().join(h);
        }
    }
    fn handle_message(&mut self, m: Message) {
        if self.silent {
            return;
        }
        self.n += 1;
        lg(&self.log, format!("{}:k{}", self.name, m.header().kind));
        if m.header().kind == 9 {
            if self.out {
                send(Message::default().kind(2), "out");
            }
            if self.n < 12 {
                schedule_in(Message::default().kind(9), Duration::from_secs(1));
            }
            if self.n == 4 && !self.went_down && matches!(self.fault, Where::TaskThenShutdown | Where::TaskThenRestart) {
                self.went_down = true;
                if self.fault == Where::TaskThenShutdown {
                    current().shutdown();
                } else {
                    current().shutdow_and_restart_in(Duration::from_secs(1));
                }
            }
            if self.n == 2 && self.fault == Where::EndAfterShutdown {
                current().shutdown();
            }
            if self.n == 2 && self.inc == 1 && matches!(self.fault, Where::RestartStage(_)) {
                current().shutdow_and_restart_in(Duration::from_secs(1));
            }
            if self.fault == Where::MsgFeedsTask(self.n + 1) {
                // a regular hand-over one message earlier: the task works
                let _ = self.feed.as_ref().unwrap().send(self.n);
            }
            if self.fault == Where::MsgFeedsTask(self.n) {
                if self.silent_variant {
                    self.silent = true;
                    current().shutdown();
                } else {
                    let _ = self.feed.as_ref().unwrap().send(self.n);
                    panic!("boom")
                }
            }
            if self.fault == Where::Msg(self.n) {
                if self.silent_variant {
                    self.silent = true;
                    current().shutdown();
                } else {
                    panic!("boom")
                }
            }
        }
    }
    fn at_sim_end(&mut self) -> Result<(), RuntimeError> {
        if self.silent {
            return Ok(());
        }
        lg(&self.log, format!("{}:end", self.name));
        assert!(!(matches!(self.fault, Where::End | Where::EndAfterShutdown) && !self.silent_variant), "endboom");
        Ok(())
    }
}

#[derive(Clone, Copy, Debug)]
struct Case {
    f: Where,
    cf: bool,
    g: Where,
    cg: bool,
    /// third faulty module (thorough tier); None placement = healthy
    h: Where,
    ch: bool,
}

struct RunOut {
    log: Vec<String>,
    errs: Vec<String>,
    aborted: bool,
}

fn run(c: &Case, silent_variant: bool) -> RunOut {
    let log: Log = Default::default();
    let l2 = log.clone();
    let c = *c;
    let r = quiet_catch(move || {
        let log = l2;
        let mut sim = Sim::new(());
        let mk = |name, fault, catching, out| P { log: log.clone(), name, fault, silent_variant, n: 0, silent: false, catching, out, went_down: false, inc: 0, feed: None };
        sim.node("a", mk("a", Where::None, false, true));
        sim.node("f", mk("f", c.f, c.cf, true));
        sim.node("g", mk("g", c.g, c.cg, true));
        sim.node("h", mk("h", c.h, c.ch, true));
        sim.node("b", mk("b", Where::None, false, false));
        let ch = || Some(Channel::new(ChannelMetrics::new(0, Duration::from_millis(300), Duration::ZERO, ChannelDropBehaviour::Drop)));
        sim.gate("a", "out").connect(sim.gate("b", "in1"), None);
        sim.gate("f", "out").connect(sim.gate("b", "in2"), ch());
        sim.gate("g", "out").connect(sim.gate("b", "in3"), ch());
        sim.gate("h", "out").connect(sim.gate("b", "in4"), None);
        let r = Builder::seeded(1).quiet().max_time(8.0.into()).build(sim.freeze()).run();
        match r {
            Ok(_) => vec![],
            Err(e) => {
                let mut v: Vec<String> = e.iter().map(|x| x.to_string()).collect();
                v.sort();
                v
            }
        }
    });
    let l = log.lock().unwrap().clone();
    match r {
        Err(m) => RunOut { log: l, errs: vec![m], aborted: true },
        Ok(errs) => RunOut { log: l, errs, aborted: false },
    }
}

fn case_json(c: &Case) -> Value {
    json!({"f": format!("{:?}", c.f), "f_catching": c.cf, "g": format!("{:?}", c.g), "g_catching": c.cg, "h": format!("{:?}", c.h), "h_catching": c.ch})
}
fn case_from(v: &Value) -> Case {
    let w = |s: &str| -> Where {
        let mut all = PLACES.to_vec();
        all.extend([Where::Msg(4), Where::Msg(6), Where::Msg(7), Where::MsgFeedsTask(3)]);
        *all.iter().find(|p| format!("{p:?}") == s).unwrap()
    };
    Case {
        f: w(v["f"].as_str().unwrap()),
        cf: v["f_catching"].as_bool().unwrap(),
        g: w(v["g"].as_str().unwrap()),
        cg: v["g_catching"].as_bool().unwrap(),
        h: v.get("h").and_then(Value::as_str).map_or(Where::None, w),
        ch: v.get("h_catching").and_then(Value::as_bool).unwrap_or(false),
    }
}

fn check(c: &Case, clean: &[String]) -> Result<u64, String> {
    let real = run(c, false);
    if real.aborted {
        return Err(format!("the panic escaped from run(): {:?}", real.errs));
    }
    let silent = run(c, true);
    if silent.aborted || !silent.errs.is_empty() {
        return Err(format!("machinery: the silent variant failed: {:?}", silent.errs));
    }
    // module h is a bystander too whenever it carries no fault
    let h_healthy = c.h == Where::None;
    let healthy = |l: &[String]| -> Vec<String> { l.iter().filter(|s| s.starts_with("a:") || s.starts_with("b:") || (h_healthy && s.starts_with("h:"))).cloned().collect() };
    let (h1, h2) = (healthy(&real.log), healthy(&silent.log));
    if h1 != h2 {
        let first = h1.iter().zip(&h2).position(|(a, b)| a != b).unwrap_or(h1.len().min(h2.len()));
        return Err(format!(
            "healthy modules saw a different history than in the run where the faulty module merely falls silent: first difference at entry {first}: {:?} vs {:?}",
            h1.get(first),
            h2.get(first)
        ));
    }
    // the faulty module itself: nothing after the panic (messages, wake-ups); tear-down excluded
    for (name, w) in [("f", c.f), ("g", c.g), ("h", c.h)] {
        if matches!(w, Where::None | Where::Task | Where::TryJoinPair | Where::End | Where::EndAfterShutdown | Where::TaskThenShutdown | Where::TaskThenRestart) {
            continue;
        }
        // tear-down is not a message or wake-up: the log is cut where tear-down begins (module a's at_sim_end runs first)
        let own = |l: &[String]| -> Vec<String> {
            let cut = l.iter().position(|s| s.starts_with("a:end@")).unwrap_or(l.len());
            l[..cut].iter().filter(|s| s.starts_with(&format!("{name}:"))).cloned().collect()
        };
        let (o1, o2) = (own(&real.log), own(&silent.log));
        if o1 != o2 {
            return Err(format!("module {name} panicked in {w:?} but kept being activated: its log {o1:?}, with a silent (shut down) module {o2:?}"));
        }
    }
    // attribution
    let mut must: Vec<String> = vec![];
    let mut may: Vec<String> = vec![];
    for (name, w, catching) in [("f", c.f, c.cf), ("g", c.g, c.cg), ("h", c.h, c.ch)] {
        match w {
            Where::None => {}
            Where::Task | Where::TryJoinPair | Where::TaskThenShutdown | Where::TaskThenRestart => {
                if catching {
                    may.push(name.into());
                } else {
                    must.push(name.into());
                }
            }
            _ => {
                if !catching {
                    must.push(name.into());
                }
            }
        }
    }
    let named = |e: &str, n: &str| e.starts_with(&format!("{n}:")) || e.contains(&format!("'{n}'")) || e.contains(&format!("\"{n}\""));
    for m in &must {
        if !real.errs.iter().any(|e| named(e, m)) {
            return Err(format!("run() did not report the panic of module {m}: errors {:?}", real.errs));
        }
    }
    for e in &real.errs {
        if !must.iter().chain(may.iter()).any(|m| named(e, m)) {
            return Err(format!("run() reported an error for a module that did not panic (or whose stereotype catches panics): {e}; all errors {:?}", real.errs));
        }
    }
    if real.errs.len() > must.len() + may.len() {
        return Err(format!("run() reported {} errors for {} panicking modules: {:?}", real.errs.len(), must.len() + may.len(), real.errs));
    }
    // globals stay usable: a clean simulation in the same process behaves as before
    let follow = run(&CLEAN, false);
    if follow.aborted || !follow.errs.is_empty() || follow.log != clean {
        return Err(format!("a follow-up simulation in the same process no longer behaves like a fresh one (errors {:?}, {} log entries vs {})", follow.errs, follow.log.len(), clean.len()));
    }
    Ok(vcheck::fp(&(h1, real.errs)))
}

// ---- the building blocks' failability policies ---------------------------------------------

struct Feed;
impl Module for Feed {
    fn at_sim_start(&mut self, _: usize) {
        for k in 1..=3u64 {
            for g in ["o1", "o2", "o3"] {
                send_in(Message::default().id(k as u16), g, Duration::from_secs(k));
            }
        }
    }
}

/// HandlerFn / ModuleFn whose handler fails on the message with id 2, under the three policies:
/// Panic = the module panics (deactivated, named by run()), Continue = nothing else happens,
/// Restart = the module restarts (its state is generated anew).
fn run_policies() -> Result<u64, String> {
    use des::net::blocks::{FailabilityPolicy, HandlerFn, ModuleFn};
    let log: Log = Default::default();
    let l2 = log.clone();
    let errs = quiet_catch(move || {
        let log = l2;
        let fail_on_two = |who: &'static str, log: Log| {
            move |m: Message| -> Result<(), std::io::Error> {
                lg(&log, format!("{who}:msg{}", m.header().id));
                if m.header().id == 2 {
                    return Err(std::io::Error::other("handler failed"));
                }
                Ok(())
            }
        };
        let mut sim = Sim::new(());
        sim.node("feed", Feed);
        sim.node("hp", HandlerFn::failable(fail_on_two("hp", log.clone()), FailabilityPolicy::Panic));
        sim.node("hc", HandlerFn::failable(fail_on_two("hc", log.clone()), FailabilityPolicy::Continue));
        let (lg1, lg2) = (log.clone(), log.clone());
        sim.node(
            "mr",
            ModuleFn::failable(
                move || {
                    lg(&lg1, "mr:gen".into());
                    0u32
                },
                move |seen: &mut u32, m: Message| -> Result<(), std::io::Error> {
                    *seen += 1;
                    lg(&lg2, format!("mr:msg{}:seen{}", m.header().id, *seen));
                    if m.header().id == 2 {
                        return Err(std::io::Error::other("handler failed"));
                    }
                    Ok(())
                },
                FailabilityPolicy::Restart,
            ),
        );
        sim.gate("feed", "o1").connect(sim.gate("hp", "in"), None);
        sim.gate("feed", "o2").connect(sim.gate("hc", "in"), None);
        sim.gate("feed", "o3").connect(sim.gate("mr", "in"), None);
        let r = Builder::seeded(1).quiet().max_time(10.0.into()).build(sim.freeze()).run();
        match r {
            Ok(_) => vec![],
            Err(e) => e.iter().map(|x| x.to_string()).collect::<Vec<_>>(),
        }
    })
    .map_err(|m| format!("a failing handler made run() panic: {m}"))?;
    let got = log.lock().unwrap().clone();
    let of = |p: &str| -> Vec<String> { got.iter().filter(|e| e.starts_with(p)).cloned().collect() };
    let exp_hp = vec!["hp:msg1@1000", "hp:msg2@2000"];
    let exp_hc = vec!["hc:msg1@1000", "hc:msg2@2000", "hc:msg3@3000"];
    let exp_mr = vec!["mr:gen@0", "mr:msg1:seen1@1000", "mr:msg2:seen2@2000", "mr:gen@2000", "mr:msg3:seen1@3000"];
    if of("hp:") != exp_hp {
        return Err(format!("HandlerFn with policy Panic: log {:?}, expected {exp_hp:?} (the module is deactivated by its panic)", of("hp:")));
    }
    if of("hc:") != exp_hc {
        return Err(format!("HandlerFn with policy Continue: log {:?}, expected {exp_hc:?}", of("hc:")));
    }
    if of("mr:") != exp_mr {
        return Err(format!("ModuleFn with policy Restart: log {:?}, expected {exp_mr:?} (restart in the instant of the failure, state generated anew)", of("mr:")));
    }
    if errs.len() != 1 || !errs[0].contains("hp") {
        return Err(format!("run() must report exactly the module whose policy is Panic, reported {errs:?}"));
    }
    Ok(vcheck::fp(&got))
}

const CLEAN: Case = Case { f: Where::None, cf: false, g: Where::None, cg: false, h: Where::None, ch: false };

impl Property for C13 {
    fn id(&self) -> &'static str {
        "C13"
    }
    fn level(&self) -> &'static str {
        "fault_enumeration"
    }
    fn rule(&self, _tier: Tier) -> String {
        // (the thorough tier adds the third faulty module)
        format!(
            "5 modules (a -> b and h -> b direct, f -> b and g -> b over latency channels, every module with periodic self messages and a timer task); fault = panic in {:?} of f and/or g (every single placement, every pair and every triple with h; thorough: three more message occurrences), each module with a catching or non-catching stereotype; \
             oracle: run() returns, the healthy modules' complete traces equal those of the real run in which the faulty module calls shutdown() at the same point, the faulty module is not activated after a callback panic, the error lists exactly the panicking non-catching modules, and a clean follow-up simulation in the same process reproduces the clean trace; \
             plus one run of HandlerFn / ModuleFn nodes whose handler returns an error under the policies Panic (module panics: deactivated, named by run()), Continue and Restart (state generated anew); every placement is distinct; non-trivial = at least one fault",
            &PLACES[1..]
        )
    }
    fn assumptions(&self) -> Vec<String> {
        vec![
            "a panic in a *joined task* is isolated by tokio: for it only the unambiguous part is asserted (no abort, bystanders unaffected, module named in the error for the non-catching stereotype); with the catching stereotype an error naming the module is accepted either way".into(),
            "at_sim_end being invoked on an already deactivated module is not counted as a wake-up".into(),
        ]
    }
    fn required_features(&self, _tier: Tier) -> Vec<&'static str> {
        vec!["single_fault", "two_faulty_modules", "three_faulty_modules", "catching_stereotype", "fault_in_start_stage", "fault_in_teardown", "fault_in_joined_task", "fault_in_nth_message", "joined_task_panic_then_shutdown_of_the_module", "fault_in_start_stage_of_a_restart", "fault_in_teardown_of_a_shut_down_module", "building_block_failability_policies", "panicking_callback_handed_work_to_a_task_before"]
    }
    fn explore(&self, ctx: &mut Ctx) {
        let clean = run(&CLEAN, false);
        if clean.aborted || !clean.errs.is_empty() {
            ctx.out.capped.push(format!("MACHINERY: clean baseline failed: {:?}", clean.errs));
            return;
        }
        if ctx.is_first_shard() {
            ctx.out.evaluations += 1;
            ctx.hit("building_block_failability_policies");
            match run_policies() {
                Ok(o) => ctx.outcome(o),
                Err(d) => ctx.violation("violation", || json!({"probe": "failability_policies"}), d),
            }
        }
        let places: Vec<Where> = if ctx.tier == Tier::Thorough {
            let mut p = PLACES.to_vec();
            p.extend([Where::Msg(4), Where::Msg(6), Where::Msg(7), Where::MsgFeedsTask(3)]);
            p
        } else {
            PLACES.to_vec()
        };
        let hs: Vec<(Where, bool)> = {
            let mut v = vec![(Where::None, false)];
            for w in &places[1..] {
                v.push((*w, false));
                v.push((*w, true));
            }
            v
        };
        for &f in &places {
            for &g in &places {
                for cf in [false, true] {
                    for cg in [false, true] {
                      for &(h, ch) in &hs {
                        if f == Where::None && g == Where::None && h == Where::None {
                            continue;
                        }
                        if (f == Where::None && cf) || (g == Where::None && cg) {
                            continue;
                        }
                        if !ctx.mine() {
                            continue;
                        }
                        let c = Case { f, cf, g, cg, h, ch };
                        ctx.begin(|| case_json(&c));
                        ctx.out.evaluations += 1;
                        ctx.out.traces += 3;
                        ctx.out.states += 1;
                        ctx.out.transitions += 3;
                        ctx.out.nontrivial += 1;
                        let nf = [f, g, h].iter().filter(|w| **w != Where::None).count();
                        if nf == 1 {
                            ctx.hit("single_fault");
                        } else {
                            ctx.hit("two_faulty_modules");
                        }
                        if nf == 3 {
                            ctx.hit("three_faulty_modules");
                        }
                        if cf || cg || ch {
                            ctx.hit("catching_stereotype");
                        }
                        for w in [f, g, h] {
                            match w {
                                Where::Start(_) => ctx.hit("fault_in_start_stage"),
                                Where::RestartStage(_) => ctx.hit("fault_in_start_stage_of_a_restart"),
                                Where::End => ctx.hit("fault_in_teardown"),
                                Where::EndAfterShutdown => ctx.hit("fault_in_teardown_of_a_shut_down_module"),
                                Where::Task | Where::TryJoinPair => ctx.hit("fault_in_joined_task"),
                                Where::TaskThenShutdown | Where::TaskThenRestart => ctx.hit("joined_task_panic_then_shutdown_of_the_module"),
                                Where::Msg(_) => ctx.hit("fault_in_nth_message"),
                                Where::MsgFeedsTask(_) => ctx.hit("panicking_callback_handed_work_to_a_task_before"),
                                Where::None => {}
                            }
                        }
                        match check(&c, &clean.log) {
                            Ok(o) => {
                                ctx.outcome(o);
                                if f == Where::Msg(2) && g == Where::Start(1) {
                                    ctx.sample(|| case_json(&c));
                                }
                            }
                            Err(d) => ctx.violation("violation", || case_json(&c), d),
                        }
                      }
                    }
                }
            }
        }
    }
    fn replay(&self, case: &Value) -> Result<(), String> {
        if case.get("probe").and_then(Value::as_str) == Some("failability_policies") {
            return run_policies().map(|_| ());
        }
        let clean = run(&CLEAN, false);
        check(&case_from(case), &clean.log).map(|_| ())
    }
}

fn main() {
    run_property(&C13);
}
