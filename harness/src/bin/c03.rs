//! C03 — equal-timestamp events are dispatched in a deterministic scheduling order.
//! Three layers with the same rule (events for the current instant first, in scheduling
//! order; then the others in scheduling order): queue (explicit-state BFS, tie oracle),
//! runtime (all tie-heavy programs, differential over queue parameters and unrelated
//! events), net (all emission sequences of one handler).

use des::prelude::*;
use std::sync::{Arc, Mutex};
use vcheck::cqlab;
use vcheck::rtlab::{self, Program, RtCfg};
use vcheck::{json, quiet_catch, run_property, Ctx, Property, Tier, Value};

struct C03;

fn queue_cfgs(tier: Tier) -> Vec<(usize, u64, usize)> {
    match tier {
        Tier::Quick => vec![(1, 1, 6), (1, 3, 6), (2, 1, 6), (2, 3, 6), (3, 2, 6), (4, 5, 6)],
        Tier::Thorough => {
            let mut v = vec![];
            for n in [1usize, 2, 3, 4, 7] {
                for t in [1u64, 2, 3, 5] {
                    v.push((n, t, 7));
                }
            }
            v.push((1028, 2_500_000, 5));
            v
        }
    }
}

const RT_CFGS: [(usize, u64); 5] = [(1, 1), (2, 3), (3, 2), (4, 5), (1028, 2_500_000)];
const RT_DELTAS: [u64; 7] = [0, 1, 2, 3, 5, 6, 7];

// ------------------------------------------------------------------ runtime layer

fn run_rt(cfg: RtCfg, prog: &Arc<Program>, extra: usize) -> Result<Vec<(u32, u128)>, String> {
    let mut b = rtlab::build(cfg, prog, None, None);
    for k in 0..extra {
        // unrelated events far in the future, some of them tied among themselves
        b.rt.add_event(rtlab::Ev(100 + k as u32), rtlab::ns(cfg.start + 1_000 + (k as u64 / 2)));
    }
    let log = b.log.clone();
    let r = quiet_catch(move || b.rt.run()).map_err(|m| format!("run panicked: {m}"))?;
    r.map_err(|e| format!("run returned an error: {e:?}"))?;
    let l = log.lock().unwrap().clone();
    Ok(l)
}

fn check_rt(start: u64, prog: &Arc<Program>) -> Result<u64, String> {
    let exp = rtlab::reference(start, prog);
    let mut first: Option<Vec<(u32, u128)>> = None;
    for (n, t) in RT_CFGS {
        let cfg = RtCfg { n, t, start };
        let got = run_rt(cfg, prog, 0)?;
        if got != exp {
            return Err(format!("(n={n}, t={t}ns) dispatch order {got:?} differs from the scheduling-order rule {exp:?}"));
        }
        if let Some(f) = &first {
            if *f != got {
                return Err(format!("dispatch order depends on queue parameters: {f:?} vs {got:?} on (n={n}, t={t}ns)"));
            }
        } else {
            first = Some(got);
        }
    }
    for extra in [1usize, 4] {
        let cfg = RtCfg { n: 2, t: 3, start };
        let got: Vec<(u32, u128)> = run_rt(cfg, prog, extra)?.into_iter().filter(|e| e.0 < 100).collect();
        if got != exp {
            return Err(format!("with {extra} unrelated future events the order of the program's events changed: {got:?} vs {exp:?}"));
        }
    }
    Ok(vcheck::fp(&exp))
}

// ------------------------------------------------------------------ net layer

type NetLog = Arc<Mutex<Vec<(&'static str, u16, u128)>>>;

#[derive(Clone, Copy, Debug, PartialEq)]
enum Act {
    SendDirect,
    SendLat,
    SelfNow,
    SelfLater,
    SendDirect2,
    /// schedule_in(1 ms) / schedule_in(2 ms): used by the long bursts
    SelfIn1,
    SelfIn2,
    /// send over a channel-less chain that leads back to the sender itself
    SendLoop,
    /// ... over a chain back to the sender with the latency of SelfLater
    SendLoopLat,
}
const ACTS: [Act; 7] = [Act::SendDirect, Act::SendLat, Act::SelfNow, Act::SelfLater, Act::SendDirect2, Act::SendLoop, Act::SendLoopLat];
const D_MS: u64 = 5;

struct Tx {
    acts: Vec<Act>,
    log: NetLog,
}
impl Module for Tx {
    fn at_sim_start(&mut self, _: usize) {
        schedule_in(Message::default().kind(900), Duration::from_millis(1));
    }
    fn handle_message(&mut self, m: Message) {
        if m.header().kind == 900 {
            for (i, a) in self.acts.iter().enumerate() {
                let msg = Message::default().kind(i as u16);
                match a {
                    Act::SendDirect => send(msg, "d"),
                    Act::SendDirect2 => send(msg, "e"),
                    Act::SendLat => send(msg, "l"),
                    Act::SendLoop => send(msg, "lo"),
                    Act::SendLoopLat => send(msg, "llo"),
                    Act::SelfNow => schedule_in(msg, Duration::ZERO),
                    Act::SelfLater => schedule_in(msg, Duration::from_millis(D_MS)),
                    Act::SelfIn1 => schedule_in(msg, Duration::from_millis(1)),
                    Act::SelfIn2 => schedule_in(msg, Duration::from_millis(2)),
                }
            }
        } else {
            self.log.lock().unwrap().push(("tx", m.header().kind, SimTime::now().as_nanos()));
        }
    }
}
struct Rx {
    log: NetLog,
}
impl Module for Rx {
    fn handle_message(&mut self, m: Message) {
        self.log.lock().unwrap().push(("rx", m.header().kind, SimTime::now().as_nanos()));
    }
}

fn run_net(seq: &[Act], n: usize, t_us: u64) -> Result<Vec<(&'static str, u16, u128)>, String> {
    let seq = seq.to_vec();
    quiet_catch(move || {
        let log: NetLog = Default::default();
        let mut sim = Sim::new(());
        sim.node("tx", Tx { acts: seq, log: log.clone() });
        sim.node("rx", Rx { log: log.clone() });
        sim.gate("tx", "d").connect(sim.gate("rx", "d"), None);
        sim.gate("tx", "e").connect(sim.gate("rx", "e"), None);
        sim.gate("tx", "lo").connect(sim.gate("tx", "li"), None);
        sim.gate("tx", "llo").connect(
            sim.gate("tx", "lli"),
            Some(Channel::new(ChannelMetrics::new(0, Duration::from_millis(D_MS), Duration::ZERO, ChannelDropBehaviour::Drop))),
        );
        sim.gate("tx", "l").connect(
            sim.gate("rx", "l"),
            Some(Channel::new(ChannelMetrics::new(0, Duration::from_millis(D_MS), Duration::ZERO, ChannelDropBehaviour::Drop))),
        );
        let r = Builder::seeded(1).quiet().cqueue_options(n, Duration::from_micros(t_us)).build(sim.freeze()).run();
        drop(r);
        let l = log.lock().unwrap().clone();
        l
    })
}

/// receiver and arrival time (ns) of the message emitted by one action at 1 ms
fn arrival(a: Act) -> (&'static str, u128) {
    let t1 = 1_000_000u128;
    match a {
        Act::SendDirect | Act::SendDirect2 => ("rx", t1),
        Act::SendLat => ("rx", t1 + u128::from(D_MS) * 1_000_000),
        Act::SelfNow | Act::SendLoop => ("tx", t1),
        Act::SendLoopLat => ("tx", t1 + u128::from(D_MS) * 1_000_000),
        Act::SelfLater => ("tx", t1 + u128::from(D_MS) * 1_000_000),
        Act::SelfIn1 => ("tx", t1 + 1_000_000),
        Act::SelfIn2 => ("tx", t1 + 2_000_000),
    }
}

fn check_net(seq: &[Act]) -> Result<u64, String> {
    // expected arrival order per receiver = emission order of the messages arriving at that instant
    let exp_for = |who: &str, at: u128| -> Vec<u16> { seq.iter().enumerate().filter(|(_, a)| arrival(**a) == (who, at)).map(|(i, _)| i as u16).collect() };
    let mut instants: Vec<u128> = seq.iter().map(|a| arrival(*a).1).collect();
    instants.sort_unstable();
    instants.dedup();
    let mut first: Option<Vec<(&'static str, u16, u128)>> = None;
    for (n, t_us) in [(4usize, 700u64), (1028, 2500), (3, 5000), (1, 1000)] {
        let got = run_net(seq, n, t_us)?;
        for who in ["rx", "tx"] {
            for &at in &instants {
                let g: Vec<u16> = got.iter().filter(|e| e.0 == who && e.2 == at).map(|e| e.1).collect();
                let e = exp_for(who, at);
                if g != e {
                    return Err(format!("(n={n}, t={t_us}us) messages arriving at {who} at {at}ns were handled in order {g:?}, emitted in order {e:?}"));
                }
            }
        }
        if got.len() != seq.len() {
            return Err(format!("(n={n}, t={t_us}us) {} of {} messages were handled: {got:?}", got.len(), seq.len()));
        }
        if let Some(f) = &first {
            if *f != got {
                return Err(format!("global handling order depends on queue parameters: {f:?} vs {got:?} on (n={n}, t={t_us}us)"));
            }
        } else {
            first = Some(got);
        }
    }
    Ok(vcheck::fp(&first))
}

/// action alphabet of the long bursts (several delays and receivers so that a burst is neither
/// sorted by time nor free of ties)
const BURST_ACTS: [Act; 6] = [Act::SelfNow, Act::SelfIn1, Act::SelfIn2, Act::SendDirect, Act::SendLat, Act::SelfLater];

fn burst(pattern: &[usize], len: usize) -> Vec<Act> {
    (0..len).map(|i| BURST_ACTS[pattern[i % pattern.len()]]).collect()
}

fn decode(code: usize, len: usize) -> Vec<Act> {
    let mut c = code;
    (0..len)
        .map(|_| {
            let a = ACTS[c % ACTS.len()];
            c /= ACTS.len();
            a
        })
        .collect()
}

/// Ties far from zero: one queue walks over `count` consecutive bucket boundaries b = K*t beyond
/// 2^24 s of simulated time; at each, events are added at b+1ns, b, b+1ns, b+t/2, b+1ns (in this
/// order) and must come back as b, then the three at b+1ns in scheduling order, then b+t/2.
fn far_ties(n: usize, t_ns: u64, count: u64) -> Result<u64, String> {
    use des_cqueue::CQueue;
    use std::time::Duration;
    let dur = |ns: u128| Duration::new((ns / 1_000_000_000) as u64, (ns % 1_000_000_000) as u32);
    quiet_catch(move || -> Result<u64, String> {
        let mut q: CQueue<u32> = CQueue::new(n, Duration::from_nanos(t_ns));
        let t = u128::from(t_ns);
        let first = ((1u128 << 24) * 1_000_000_000).div_ceil(t) + 1;
        let mut id = 0u32;
        for k in first..first + u128::from(count) {
            let b = k * t;
            for x in [b + 1, b, b + 1, b + t / 2, b + 1] {
                q.add(dur(x), id);
                id += 1;
            }
            let i0 = id - 5;
            for (eid, et) in [(i0 + 1, b), (i0, b + 1), (i0 + 2, b + 1), (i0 + 4, b + 1), (i0 + 5, b + 1), (i0 + 3, b + t / 2)] {
                if eid == i0 {
                    // the event on the boundary has been fetched (the clock is at b): one more for
                    // b+1ns now - a future instant, so it queues behind the older ones
                    q.add(dur(b + 1), id);
                    id += 1;
                }
                if q.is_empty() {
                    return Err(format!("(n={n}, t={t_ns}ns) boundary {k}: queue empty although event {eid} is pending"));
                }
                let (gid, gt) = q.fetch_next();
                if gid != eid || gt.as_nanos() != et {
                    return Err(format!(
                        "(n={n}, t={t_ns}ns) around bucket boundary {k}*t = {b}ns: fetched event {gid} at {}ns, time order and the scheduling-order rule say event {eid} at {et}ns",
                        gt.as_nanos()
                    ));
                }
            }
        }
        Ok(u64::from(id))
    })
    .map_err(|m| format!("panicked: {m}"))?
}

impl Property for C03 {
    fn id(&self) -> &'static str {
        "C03"
    }
    fn rule(&self, tier: Tier) -> String {
        format!(
            "queue layer: the C01 explicit-state BFS with the tie oracle (fetch_next must return exactly the head of the reference list ordered by (time, scheduled-for-current-instant first, scheduling order)) on (n,t,depth) = {:?} (drain after every history; 3 configurations also to depth 5 / 6 without merging states), plus long bursts for one instant (k in {{1,2,63,64,65,66,129,200}} events scheduled for the current instant, before the first dispatch or behind an older event of that instant, with follow-ups scheduled while the burst drains) on 4 parameterisations; \
             queue layer, far from zero: on 4 configurations with bucket widths 0.1 s to 99.9 s one queue each walks over 2000 (thorough 40000) consecutive bucket boundaries beyond 2^24 s of simulated time with a three-way tie 1 ns after each boundary, scheduled around an event exactly on it and one half a bucket later, plus a fourth event for that instant scheduled once the clock stands on the boundary; \
            runtime layer: every event program of 1..={} events with delays from {:?} x start in {{0,5}}, each run on 5 queue parameterisations (logs must equal the rule and each other) and with 1 and 4 unrelated future events; \
             net layer: every sequence of 1..={} actions from {{send over two channel-less chains, send over a latency channel, send over a channel-less / a latency chain that leads back to the sender (so that sent and self-scheduled messages meet at one receiver in one instant), schedule_in(0), schedule_in(d)}} emitted by one handler, on 4 queue parameterisations, plus long bursts (16..70 events, thorough up to 300) of every periodic pattern of period 1..3 over six actions (three self-schedule delays, direct and latency sends); \
             distinct_nontrivial = distinct canonical queue states with pending events + programs/sequences containing at least one tie",
            queue_cfgs(tier),
            tier.pick(4, 5),
            RT_DELTAS,
            tier.pick(5, 7)
        )
    }
    fn assumptions(&self) -> Vec<String> {
        vec![
            "default feature set (cqueue backend); the BinaryHeap backend only promises time order".into(),
            "net layer: the order across different receiving modules is only required to be identical for all queue parameterisations; per receiver it must equal emission order".into(),
        ]
    }
    fn required_features(&self, _tier: Tier) -> Vec<&'static str> {
        vec!["fetch_with_tie", "add_at_current_time", "rt_program_with_tie", "rt_zero_delay_followup_tied_with_older_event", "net_sequence_with_same_instant_pair", "net_long_burst", "queue_long_burst_for_one_instant", "ties_beyond_2^24_seconds"]
    }
    fn crash_is_violation(&self) -> bool {
        true
    }
    fn explore(&self, ctx: &mut Ctx) {
        // queue layer
        for (n, t, depth) in queue_cfgs(ctx.tier) {
            cqlab::bfs(ctx, n, t, depth, true, true, true, "queue-tie-order");
        }
        for (n, t) in [(1usize, 1u64), (2, 3), (4, 5)] {
            // without merging states (see C01)
            cqlab::bfs(ctx, n, t, ctx.tier.pick(5, 6), true, false, true, "queue-tie-order");
        }
        // queue layer, ties around bucket boundaries beyond 2^24 s of simulated time
        let count = ctx.tier.pick(2000u64, 40_000);
        for (i, (n, t)) in [(8usize, 99_900_000_000u64), (4, 1_100_000_000), (16, 100_000_000), (3, 4_900_000_000)].iter().enumerate() {
            if !ctx.mine_key(i as u64) {
                continue;
            }
            let case = json!({"layer": "far-ties", "n": n, "t_ns": t, "count": count});
            ctx.begin(|| case.clone());
            ctx.out.evaluations += 1;
            ctx.hit("ties_beyond_2^24_seconds");
            match far_ties(*n, *t, count) {
                Ok(ev) => {
                    ctx.out.transitions += 2 * ev;
                    ctx.out.traces += 1;
                }
                Err(d) => ctx.violation("queue-tie-order", || case.clone(), d),
            }
        }
        // queue layer, long bursts for one instant: k events scheduled for the current instant
        // (before the first dispatch, or behind an older event of that instant that sits in a
        // calendar bucket), follow-ups scheduled while the burst drains
        for (n, t) in [(1usize, 1u64), (2, 3), (4, 5), (1028, 2_500_000)] {
            for k in [1usize, 2, 63, 64, 65, 66, 129, 200] {
                for shape in 0..3u8 {
                    if !ctx.mine() {
                        continue;
                    }
                    use cqlab::Op;
                    let mut h: Vec<Op> = vec![];
                    if shape >= 1 {
                        // two events for one later instant; after the first is fetched the other is an older tie
                        h.extend([Op::Add(2 * t + 1), Op::Add(2 * t + 1), Op::Fetch]);
                    }
                    h.extend(std::iter::repeat_n(Op::Add(0), k));
                    if shape == 2 || shape == 0 {
                        // follow-ups for the same instant while the burst is being fetched
                        h.extend([Op::Fetch, Op::Add(0), Op::Fetch, Op::Add(0), Op::Add(t)]);
                    }
                    let case = cqlab::case_json(n, t, &h, true);
                    ctx.begin(|| case.clone());
                    ctx.out.evaluations += 1;
                    ctx.out.traces += 1;
                    ctx.hit("queue_long_burst_for_one_instant");
                    if let Err(d) = cqlab::replay_case(&case) {
                        ctx.violation("queue-tie-order", || case.clone(), format!("(n={n}, t={t}ns) burst of {k} events for the current instant: {d}"));
                    }
                }
            }
        }
        // runtime layer
        let maxm = ctx.tier.pick(4, 5);
        for start in [0u64, 5] {
            for m in 1..=maxm {
                let mut progs = vec![];
                rtlab::for_each_program(m, &RT_DELTAS, |p| {
                    if ctx.mine() {
                        progs.push(p.clone());
                    }
                });
                for p in progs {
                    let exp = rtlab::reference(start, &p);
                    let tie = exp.windows(2).any(|w| w[0].1 == w[1].1);
                    // a zero-delay child tied with an event that was scheduled earlier for the same instant
                    let zero_tied = p.children.iter().enumerate().any(|(par, cs)| {
                        cs.iter().any(|c| c.1 == 0) && {
                            let tpar = exp.iter().find(|e| e.0 == par as u32).unwrap().1;
                            exp.iter().filter(|e| e.1 == tpar).count() > 2
                        }
                    });
                    let prog = Arc::new(p);
                    ctx.out.evaluations += 1;
                    ctx.out.traces += 7;
                    ctx.out.states += 1;
                    ctx.out.transitions += m as u64 * 7;
                    if tie {
                        ctx.hit("rt_program_with_tie");
                        ctx.out.nontrivial += 1;
                    }
                    if zero_tied {
                        ctx.hit("rt_zero_delay_followup_tied_with_older_event");
                    }
                    ctx.begin(|| json!({"layer": "runtime", "start_ns": start, "program": prog.to_json()}));
                    match check_rt(start, &prog) {
                        Ok(o) => {
                            ctx.outcome(o);
                            if tie && m == 4 {
                                ctx.sample(|| json!({"layer": "runtime", "start_ns": start, "program": prog.to_json()}));
                            }
                        }
                        Err(d) => ctx.violation("runtime-tie-order", || json!({"layer": "runtime", "start_ns": start, "program": prog.to_json()}), d),
                    }
                }
            }
        }
        // net layer
        let maxlen = ctx.tier.pick(5, 7);
        for len in 1..=maxlen {
            for code in 0..ACTS.len().pow(len as u32) {
                if !ctx.mine() {
                    continue;
                }
                let seq = decode(code, len);
                let same = (0..seq.len()).any(|i| {
                    (i + 1..seq.len()).any(|j| {
                        let cls = |a: Act| matches!(a, Act::SendLat | Act::SelfLater);
                        cls(seq[i]) == cls(seq[j])
                    })
                });
                ctx.out.evaluations += 1;
                ctx.out.traces += 4;
                ctx.out.states += 1;
                ctx.out.transitions += len as u64 * 4;
                if same {
                    ctx.hit("net_sequence_with_same_instant_pair");
                    ctx.out.nontrivial += 1;
                }
                ctx.begin(|| json!({"layer": "net", "len": len, "code": code, "actions": format!("{seq:?}")}));
                match check_net(&seq) {
                    Ok(o) => ctx.outcome(o),
                    Err(d) => ctx.violation("net-tie-order", || json!({"layer": "net", "len": len, "code": code, "actions": format!("{seq:?}")}), d),
                }
            }
        }
        // long bursts from one handler: every periodic pattern of period 1..=3 over six actions
        for period in 1..=3usize {
            for code in 0..BURST_ACTS.len().pow(period as u32) {
                let mut c = code;
                let pat: Vec<usize> = (0..period).map(|_| { let x = c % BURST_ACTS.len(); c /= BURST_ACTS.len(); x }).collect();
                for len in ctx.tier.pick(vec![16usize, 33, 40, 70], vec![16usize, 32, 33, 34, 40, 64, 70, 128, 300]) {
                    if !ctx.mine() {
                        continue;
                    }
                    let seq = burst(&pat, len);
                    ctx.begin(|| json!({"layer": "net-burst", "pattern": pat, "len": len}));
                    ctx.out.evaluations += 1;
                    ctx.out.traces += 4;
                    ctx.out.states += 1;
                    ctx.out.transitions += len as u64 * 4;
                    ctx.out.nontrivial += 1;
                    ctx.hit("net_long_burst");
                    match check_net(&seq) {
                        Ok(o) => ctx.outcome(o),
                        Err(d) => ctx.violation("net-tie-order", || json!({"layer": "net-burst", "pattern": pat, "len": len}), d),
                    }
                }
            }
        }
    }
    fn replay(&self, case: &Value) -> Result<(), String> {
        if case.get("layer").and_then(Value::as_str) == Some("far-ties") {
            return far_ties(case["n"].as_u64().unwrap() as usize, case["t_ns"].as_u64().unwrap(), case["count"].as_u64().unwrap()).map(|_| ());
        }
        if case.get("layer").and_then(Value::as_str) == Some("net-burst") {
            let pat: Vec<usize> = case["pattern"].as_array().unwrap().iter().map(|x| x.as_u64().unwrap() as usize).collect();
            return check_net(&burst(&pat, case["len"].as_u64().unwrap() as usize)).map(|_| ());
        }
        match case.get("layer").and_then(Value::as_str) {
            Some("runtime") => check_rt(case["start_ns"].as_u64().unwrap(), &Arc::new(Program::from_json(&case["program"]))).map(|_| ()),
            Some("net") => check_net(&decode(case["code"].as_u64().unwrap() as usize, case["len"].as_u64().unwrap() as usize)).map(|_| ()),
            _ => cqlab::replay_case(case),
        }
    }
}

fn main() {
    run_property(&C03);
}
