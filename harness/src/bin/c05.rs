//! C05 — timers fire exactly at their deadline and are never lost.
//! Complete enumeration of async task scripts (sleep / sleep_until / timeout / biased select /
//! create-poll-drop / reset / interval with missed-tick behaviours / message-fed inner
//! futures / far-future timers), several tasks per module, optional shutdown+restart of the
//! module, on a real simulation; against a reference interpreter with exact virtual time.

use des::prelude::*;
use des::time::{interval, interval_at, sleep, sleep_until, timeout, timeout_at, MissedTickBehavior};
use std::future::Future;
use std::pin::Pin;
use std::sync::{Arc, Mutex};
use tokio::sync::watch;
use vcheck::{json, quiet_catch, run_property, Ctx, Property, Tier, Value};

struct C05;

// ---- deadlines that differ by less than a millisecond --------------------------------------

struct Fine {
    log: Arc<Mutex<Vec<(String, u128)>>>,
    /// arm the later deadline first
    later_first: bool,
}
impl Module for Fine {
    fn at_sim_start(&mut self, _: usize) {
        let us = Duration::from_micros;
        let mut jobs: Vec<(&'static str, u64)> = vec![("a", 1_000_200), ("b", 1_000_700), ("c", 1_000_999), ("d", 1_001_000)];
        if self.later_first {
            jobs.reverse();
        }
        for (name, d) in jobs {
            let l = self.log.clone();
            tokio::spawn(async move {
                sleep(us(d)).await;
                l.lock().unwrap().push((name.to_string(), SimTime::now().as_nanos()));
            });
        }
        let l = self.log.clone();
        tokio::spawn(async move {
            let r = timeout(us(1_000_500), sleep(us(1_000_900))).await;
            l.lock().unwrap().push((format!("timeout:{}", r.is_ok()), SimTime::now().as_nanos()));
        });
        let l = self.log.clone();
        tokio::spawn(async move {
            let mut iv = interval(us(2_500));
            for k in 0..3 {
                iv.tick().await;
                l.lock().unwrap().push((format!("tick{k}"), SimTime::now().as_nanos()));
            }
        });
    }
}
/// Timers of one module whose deadlines fall into the same millisecond: each fires at exactly its own deadline.
fn run_fine(later_first: bool) -> Result<u64, String> {
    let got = quiet_catch(move || {
        let log: Arc<Mutex<Vec<(String, u128)>>> = Default::default();
        let mut sim = Sim::new(());
        sim.node("m", Fine { log: log.clone(), later_first });
        let r = Builder::seeded(1).quiet().max_time(10.0.into()).build(sim.freeze()).run();
        drop(r);
        let mut g = log.lock().unwrap().clone();
        g.sort();
        g
    })
    .map_err(|m| format!("panicked: {m}"))?;
    let mut exp: Vec<(String, u128)> = vec![
        ("a".into(), 1_000_200_000),
        ("b".into(), 1_000_700_000),
        ("c".into(), 1_000_999_000),
        ("d".into(), 1_001_000_000),
        ("timeout:false".into(), 1_000_500_000),
        ("tick0".into(), 0),
        ("tick1".into(), 2_500_000),
        ("tick2".into(), 5_000_000),
    ];
    exp.sort();
    if got != exp {
        return Err(format!("timers with deadlines inside one millisecond (armed {} first): completions {got:?}, expected {exp:?}", if later_first { "latest" } else { "earliest" }));
    }
    Ok(vcheck::fp(&got))
}

// ---- large values: very long sleeps, deadlines around 2^32 s ---------------------------------

struct Far {
    log: Arc<Mutex<Vec<(String, u128)>>>,
    /// (label, sleep duration in ns)
    sleeps: Vec<(String, u128)>,
    /// (label, absolute deadline in ns) for sleep_until
    untils: Vec<(String, u128)>,
    reversed: bool,
}
fn dur_ns(ns: u128) -> Duration {
    Duration::new((ns / 1_000_000_000) as u64, (ns % 1_000_000_000) as u32)
}
impl Module for Far {
    fn at_sim_start(&mut self, _: usize) {
        let mut jobs: Vec<(String, u128, bool)> = self.sleeps.iter().map(|(n, d)| (n.clone(), *d, false)).chain(self.untils.iter().map(|(n, d)| (n.clone(), *d, true))).collect();
        if self.reversed {
            jobs.reverse();
        }
        for (name, d, abs) in jobs {
            let l = self.log.clone();
            tokio::spawn(async move {
                if abs {
                    sleep_until(SimTime::from_duration(dur_ns(d))).await;
                } else {
                    sleep(dur_ns(d)).await;
                }
                l.lock().unwrap().push((name, SimTime::now().as_nanos()));
            });
        }
    }
}
/// which: 0 = sleeps around 2^36 ms (about 2.18 years) from time zero; 1 = a simulation starting
/// 10 s before 2^32 s with deadlines on both sides of it; 2 = starting at 20000000.123456789 s
/// with nanosecond-spaced deadlines. Every timer fires at exactly its deadline.
fn run_far(which: u8, reversed: bool) -> Result<u64, String> {
    let sec = 1_000_000_000u128;
    let (start, sleeps, untils): (u128, Vec<(String, u128)>, Vec<(String, u128)>) = match which {
        0 => {
            let m = (1u128 << 36) * 1_000_000;
            (0, [m - 3_000_000, m - 2_000_000, m - 1_999_999, m - 1_000_000, m, m + 5 * sec, 1u128 << 62].iter().enumerate().map(|(i, d)| (format!("s{i}"), *d)).collect(), vec![("u0".into(), m + 1)])
        }
        1 => {
            let p = (1u128 << 32) * sec;
            (p - 10 * sec, [5 * sec, 15 * sec, 10 * sec, 10 * sec + 1, 10 * sec - 1].iter().enumerate().map(|(i, d)| (format!("s{i}"), *d)).collect(), vec![("u0".into(), p + 2), ("u1".into(), p - 2), ("u2".into(), 2 * p - 20 * sec + 3)])
        }
        _ => {
            let st = 20_000_000_123_456_789u128;
            (st, [1u128, 2, 3, 1_500_000_001, 999_999_999].iter().enumerate().map(|(i, d)| (format!("s{i}"), *d)).collect(), vec![("u0".into(), st + 4), ("u1".into(), st + 1_500_000_002)])
        }
    };
    let mut exp: Vec<(String, u128)> = sleeps.iter().map(|(n, d)| (n.clone(), start + d)).chain(untils.iter().cloned()).collect();
    let got = quiet_catch(move || {
        let log: Arc<Mutex<Vec<(String, u128)>>> = Default::default();
        let mut sim = Sim::new(());
        sim.node("m", Far { log: log.clone(), sleeps, untils, reversed });
        let r = Builder::seeded(1).quiet().cqueue_options(1024, Duration::from_secs(86_400)).start_time(SimTime::from_duration(dur_ns(start))).build(sim.freeze()).run();
        drop(r);
        let mut g = log.lock().unwrap().clone();
        g.sort();
        g
    })
    .map_err(|m| format!("panicked: {m}"))?;
    exp.sort();
    if got != exp {
        return Err(format!("large-value probe {which} (start {start}ns, timers armed in {} order): completions (label, ns) {got:?}, expected {exp:?}", if reversed { "reverse" } else { "listed" }));
    }
    Ok(vcheck::fp(&got))
}

const S: u64 = 1000; // ms
/// the message-fed flag becomes true this long after the module (re)started
const FLAG_AT: u64 = 2 * S;

#[derive(Clone, Copy, Debug, PartialEq, Eq, Hash)]
enum Beh {
    Burst,
    Delay,
    Skip,
}

#[derive(Clone, Copy, Debug, PartialEq, Eq, Hash)]
enum Step {
    Sleep(u64),
    /// sleep_until(absolute, relative to the incarnation's start)
    Until(u64),
    /// timeout(d, sleep(inner))
    Timeout(u64, u64),
    /// timeout(d, pending) / timeout(d, sleep(MAX))
    TimeoutNever(u64, bool),
    /// timeout(d, flag set by a message at FLAG_AT)
    TimeoutFlag(u64),
    /// select! { biased; sleep(a), sleep(b) }
    Sel(u64, u64),
    /// select! { biased; sleep(MAX), sleep(b) } / reversed
    SelFar(u64, bool),
    DropPolled(u64),
    ResetFresh(u64, u64),
    ResetPolled(u64, u64),
    /// sleep(d0) polled once, then another sleep(w), then reset to (step start + d1) and await
    ResetAfterWait(u64, u64, u64),
    /// interval(period): two ticks, reset() in the instant of the second tick, third tick
    IntervalReset(u64),
    /// interval(period), behaviour, busy gap between the 3 ticks
    Interval(u64, Beh, u64),
    /// wait for the message-fed flag
    WaitFlag,
    /// two sleeps of this task with the same deadline, both polled once; the one polled first
    /// is dropped, the other one awaited
    TwinDropFirst(u64),
}

/// (task, step index, now ms, value)
type Entry = (usize, usize, u64, u64);
type Log = Arc<Mutex<Vec<Entry>>>;

async fn poll_once<F: Future + Unpin>(mut f: F) -> bool {
    std::future::poll_fn(|cx| std::task::Poll::Ready(Pin::new(&mut f).poll(cx).is_ready())).await
}
fn ms(v: u64) -> Duration {
    Duration::from_millis(v)
}
fn now_ms() -> u64 {
    (SimTime::now().as_nanos() / 1_000_000) as u64
}

async fn wait_flag(rx: &mut watch::Receiver<bool>) {
    let _ = rx.wait_for(|v| *v).await;
}

async fn run_steps(task: usize, steps: Vec<Step>, log: Log, mut flag: watch::Receiver<bool>, origin: u64) {
    for (i, s) in steps.iter().enumerate() {
        let push = |v: u64| {
            // sub-millisecond precision must not be hidden: log ns remainder as an error value
            let ns = SimTime::now().as_nanos();
            let v = if ns % 1_000_000 != 0 { 999_999 } else { v };
            log.lock().unwrap().push((task, i, (ns / 1_000_000) as u64, v));
        };
        match *s {
            Step::Sleep(d) => {
                sleep(ms(d)).await;
                push(0);
            }
            Step::Until(t) => {
                sleep_until(SimTime::from_duration(ms(origin + t))).await;
                push(0);
            }
            Step::Timeout(d, inner) => {
                // the relative and the absolute form, in turn
                let r = if (task + i) % 2 == 0 { timeout(ms(d), sleep(ms(inner))).await } else { timeout_at(SimTime::now() + ms(d), sleep(ms(inner))).await };
                push(if r.is_ok() { 1 } else { 2 });
            }
            Step::TimeoutNever(d, far) => {
                let r = if far { timeout(ms(d), sleep(Duration::MAX)).await.is_ok() } else { timeout(ms(d), std::future::pending::<()>()).await.is_ok() };
                push(if r { 1 } else { 2 });
            }
            Step::TimeoutFlag(d) => {
                let r = timeout(ms(d), wait_flag(&mut flag)).await;
                push(if r.is_ok() { 1 } else { 2 });
            }
            Step::Sel(a, b) => {
                let v = tokio::select! { biased; () = sleep(ms(a)) => 1, () = sleep(ms(b)) => 2 };
                push(v);
            }
            Step::SelFar(b, far_first) => {
                let v = if far_first {
                    tokio::select! { biased; () = sleep(Duration::MAX) => 1, () = sleep(ms(b)) => 2 }
                } else {
                    tokio::select! { biased; () = sleep(ms(b)) => 2, () = sleep(Duration::MAX) => 1 }
                };
                push(v);
            }
            Step::DropPolled(d) => {
                let s = sleep(ms(d));
                tokio::pin!(s);
                let _ = poll_once(s.as_mut()).await;
                push(0);
            }
            Step::ResetFresh(d0, d1) => {
                let s = sleep(ms(d0));
                tokio::pin!(s);
                s.as_mut().reset(SimTime::now() + ms(d1));
                let consistent = s.deadline() == SimTime::now() + ms(d1) && s.is_elapsed() == (d1 == 0);
                s.await;
                push(if consistent { 0 } else { 777 });
            }
            Step::ResetPolled(d0, d1) => {
                let s = sleep(ms(d0));
                tokio::pin!(s);
                let _ = poll_once(s.as_mut()).await;
                s.as_mut().reset(SimTime::now() + ms(d1));
                s.await;
                push(0);
            }
            Step::ResetAfterWait(d0, w, d1) => {
                let begin = SimTime::now();
                let s = sleep(ms(d0));
                tokio::pin!(s);
                let _ = poll_once(s.as_mut()).await;
                sleep(ms(w)).await;
                s.as_mut().reset(begin + ms(d1));
                s.await;
                push(0);
            }
            Step::IntervalReset(p) => {
                let mut iv = if (task + i) % 2 == 0 { interval(ms(p)) } else { interval_at(SimTime::now(), ms(p)) };
                iv.tick().await;
                iv.tick().await;
                log.lock().unwrap().push((task, i, now_ms(), 1));
                iv.reset();
                let t = iv.tick().await;
                log.lock().unwrap().push((task, i, now_ms(), 100_000 + (t.as_nanos() / 1_000_000) as u64));
            }
            Step::Interval(p, beh, gap) => {
                let mut iv = if (task + i) % 2 == 0 { interval(ms(p)) } else { interval_at(SimTime::now(), ms(p)) };
                iv.set_missed_tick_behavior(match beh {
                    Beh::Burst => MissedTickBehavior::Burst,
                    Beh::Delay => MissedTickBehavior::Delay,
                    Beh::Skip => MissedTickBehavior::Skip,
                });
                for _ in 0..3 {
                    let t = iv.tick().await;
                    log.lock().unwrap().push((task, i, now_ms(), 100_000 + (t.as_nanos() / 1_000_000) as u64));
                    if gap > 0 {
                        sleep(ms(gap)).await;
                    }
                }
            }
            Step::WaitFlag => {
                wait_flag(&mut flag).await;
                push(0);
            }
            Step::TwinDropFirst(d) => {
                let a = Box::pin(sleep(ms(d)));
                let mut a = Some(a);
                let b = sleep(ms(d));
                tokio::pin!(b);
                let _ = poll_once(a.as_mut().unwrap().as_mut()).await;
                let _ = poll_once(b.as_mut()).await;
                drop(a.take());
                b.await;
                push(0);
            }
        }
    }
}

struct RefOut {
    entries: Vec<Entry>,
    /// entries whose value may legitimately be either 1 or 2 (message vs. timer at one instant)
    tied: Vec<(usize, usize)>,
    /// latest finite deadline any timer of this task was given
    max_deadline: u64,
    /// a step needed a live timer behind one that was cancelled, dropped or had already fired
    cancelled_before_live: bool,
}

/// Reference interpreter: exact virtual time. `origin` = start of this incarnation;
/// `stop` = the task is cancelled at this time (entries at or after it never happen).
fn reference(task: usize, steps: &[Step], origin: u64, stop: Option<u64>) -> RefOut {
    let mut now = origin;
    let flag_at = origin + FLAG_AT;
    let mut out = RefOut { entries: vec![], tied: vec![], max_deadline: origin, cancelled_before_live: false };
    let mut cancelled_pending: Vec<u64> = vec![]; // deadlines of timers cancelled while still in the future
    macro_rules! emit {
        ($i:expr, $v:expr) => {
            if stop.is_some_and(|s| now >= s) {
                return out;
            }
            out.entries.push((task, $i, now, $v));
        };
    }
    for (i, s) in steps.iter().enumerate() {
        let start = now;
        let live_deadline: Option<u64>;
        match *s {
            Step::Sleep(d) => {
                out.max_deadline = out.max_deadline.max(now + d);
                live_deadline = Some(now + d);
                now += d;
                emit!(i, 0);
            }
            Step::Until(t) => {
                out.max_deadline = out.max_deadline.max(origin + t);
                live_deadline = Some(origin + t);
                now = now.max(origin + t);
                emit!(i, 0);
            }
            Step::Timeout(d, inner) => {
                out.max_deadline = out.max_deadline.max(now + d).max(now + inner);
                let v = if inner <= d {
                    if d > inner {
                        cancelled_pending.push(now + d);
                    }
                    live_deadline = Some(now + inner);
                    now += inner;
                    1
                } else {
                    cancelled_pending.push(now + inner);
                    live_deadline = Some(now + d);
                    now += d;
                    2
                };
                emit!(i, v);
            }
            Step::TimeoutNever(d, _) => {
                out.max_deadline = out.max_deadline.max(now + d);
                live_deadline = Some(now + d);
                now += d;
                emit!(i, 2);
            }
            Step::TimeoutFlag(d) => {
                out.max_deadline = out.max_deadline.max(now + d).max(flag_at);
                let ready = now.max(flag_at);
                live_deadline = Some(now + d);
                if flag_at == now + d {
                    // the message event and the timer wake-up carry the same timestamp
                    now = ready;
                    out.tied.push((task, i));
                    emit!(i, 1);
                } else if ready <= now + d {
                    if ready > now {
                        cancelled_pending.push(now + d);
                    }
                    now = ready;
                    emit!(i, 1);
                } else {
                    now += d;
                    emit!(i, 2);
                }
            }
            Step::Sel(a, b) => {
                out.max_deadline = out.max_deadline.max(now + a).max(now + b);
                let v = if a <= b {
                    if b > a {
                        cancelled_pending.push(now + b);
                    }
                    live_deadline = Some(now + a);
                    now += a;
                    1
                } else {
                    cancelled_pending.push(now + a);
                    live_deadline = Some(now + b);
                    now += b;
                    2
                };
                emit!(i, v);
            }
            Step::SelFar(b, _) => {
                out.max_deadline = out.max_deadline.max(now + b);
                live_deadline = Some(now + b);
                now += b;
                emit!(i, 2);
            }
            Step::DropPolled(d) => {
                out.max_deadline = out.max_deadline.max(now + d);
                if d > 0 {
                    cancelled_pending.push(now + d);
                }
                live_deadline = None;
                emit!(i, 0);
            }
            Step::ResetFresh(_, d1) => {
                out.max_deadline = out.max_deadline.max(now + d1);
                live_deadline = Some(now + d1);
                now += d1;
                emit!(i, 0);
            }
            Step::ResetPolled(d0, d1) => {
                out.max_deadline = out.max_deadline.max(now + d1).max(now + d0);
                if d0 > 0 && d0 != d1 {
                    cancelled_pending.push(now + d0);
                }
                let _ = d0;
                live_deadline = Some(now + d1);
                now += d1;
                emit!(i, 0);
            }
            Step::ResetAfterWait(d0, w, d1) => {
                out.max_deadline = out.max_deadline.max(now + d0).max(now + w).max(now + d1);
                let begin = now;
                now += w;
                now = now.max(begin + d1);
                live_deadline = None;
                emit!(i, 0);
            }
            Step::IntervalReset(p) => {
                live_deadline = None;
                now += p;
                out.max_deadline = out.max_deadline.max(now + p);
                emit!(i, 1);
                now += p;
                emit!(i, 100_000 + now);
            }
            Step::Interval(p, beh, gap) => {
                let mut deadline = now;
                live_deadline = None;
                for _ in 0..3 {
                    now = now.max(deadline);
                    out.max_deadline = out.max_deadline.max(deadline);
                    emit!(i, 100_000 + deadline);
                    // tokio's documented rule: a tick is "missed" when it is more than 5 ms late
                    deadline = if now > deadline + 5 {
                        match beh {
                            Beh::Burst => deadline + p,
                            Beh::Delay => now + p,
                            Beh::Skip => now + p - ((now - deadline) % p),
                        }
                    } else {
                        deadline + p
                    };
                    out.max_deadline = out.max_deadline.max(deadline);
                    if gap > 0 {
                        out.max_deadline = out.max_deadline.max(now + gap);
                        now += gap;
                    }
                }
            }
            Step::TwinDropFirst(d) => {
                out.max_deadline = out.max_deadline.max(now + d);
                live_deadline = Some(now + d);
                now += d;
                emit!(i, 0);
            }
            Step::WaitFlag => {
                out.max_deadline = out.max_deadline.max(flag_at);
                live_deadline = None;
                now = now.max(flag_at);
                emit!(i, 0);
            }
        }
        if let Some(l) = live_deadline {
            // a cancelled timer with an earlier (still future at `start`) deadline sits in front
            if l > start && cancelled_pending.iter().any(|c| *c > start && *c < l) {
                out.cancelled_before_live = true;
            }
        }
    }
    out
}

struct Mo {
    tasks: Vec<Vec<Step>>,
    log: Log,
    /// (shutdown at, restart after) in ms
    restart: Option<(u64, u64)>,
    flag: Option<watch::Sender<bool>>,
    incarnation: u64,
}
impl Module for Mo {
    fn reset(&mut self) {
        self.flag = None;
    }
    fn at_sim_start(&mut self, _: usize) {
        let origin = now_ms();
        let (tx, rx) = watch::channel(false);
        self.flag = Some(tx);
        for (i, t) in self.tasks.iter().enumerate() {
            let h = tokio::spawn(run_steps(i, t.clone(), self.log.clone(), rx.clone(), origin));
            if self.restart.is_none() {
                current().join(h);
            }
        }
        schedule_in(Message::default().kind(1), ms(FLAG_AT));
        if self.incarnation == 0 {
            if let Some((at, _)) = self.restart {
                schedule_in(Message::default().kind(2), ms(at));
            }
        }
        self.incarnation += 1;
    }
    fn handle_message(&mut self, m: Message) {
        match m.header().kind {
            1 => {
                if let Some(f) = &self.flag {
                    let _ = f.send(true);
                }
            }
            2 => {
                let (_, after) = self.restart.unwrap();
                current().shutdow_and_restart_in(ms(after));
            }
            _ => {}
        }
    }
}

#[derive(Clone, Debug)]
struct Case {
    tasks: Vec<Vec<Step>>,
    restart: Option<(u64, u64)>,
}

fn case_json(c: &Case) -> Value {
    json!({"tasks": c.tasks.iter().map(|t| t.iter().map(|s| format!("{s:?}")).collect::<Vec<_>>()).collect::<Vec<_>>(),
           "restart": c.restart, "encoded": encode(c)})
}

fn encode(c: &Case) -> Value {
    let alpha = alphabet(Tier::Thorough);
    json!({"tasks": c.tasks.iter().map(|t| t.iter().map(|s| alpha.iter().position(|a| a == s).unwrap()).collect::<Vec<_>>()).collect::<Vec<_>>(), "restart": c.restart})
}
fn decode(v: &Value) -> Case {
    let alpha = alphabet(Tier::Thorough);
    let e = &v["encoded"];
    Case {
        tasks: e["tasks"].as_array().unwrap().iter().map(|t| t.as_array().unwrap().iter().map(|i| alpha[i.as_u64().unwrap() as usize]).collect()).collect(),
        restart: e["restart"].as_array().map(|r| (r[0].as_u64().unwrap(), r[1].as_u64().unwrap())),
    }
}

#[derive(Default)]
struct Facts {
    tie: bool,
    cancelled_before_live: bool,
}

fn run_case(c: &Case, facts: &mut Facts) -> Result<u64, String> {
    // expectation
    let mut exp: Vec<Entry> = vec![];
    let mut tied: Vec<(usize, usize)> = vec![];
    let mut max_deadline = 0;
    let mut last_completion = 0;
    let incarnations: Vec<(u64, Option<u64>)> = match c.restart {
        None => vec![(0, None)],
        Some((at, after)) => vec![(0, Some(at)), (at + after, None)],
    };
    for (origin, stop) in &incarnations {
        for (i, t) in c.tasks.iter().enumerate() {
            let r = reference(i, t, *origin, *stop);
            for e in &r.entries {
                last_completion = last_completion.max(e.2);
            }
            exp.extend(r.entries);
            tied.extend(r.tied);
            // timers registered before a shutdown may leave no-op wake-ups behind
            max_deadline = max_deadline.max(r.max_deadline);
            facts.cancelled_before_live |= r.cancelled_before_live;
        }
        max_deadline = max_deadline.max(origin + FLAG_AT);
    }
    if let Some((at, after)) = c.restart {
        max_deadline = max_deadline.max(at + after);
        last_completion = last_completion.max(at + after);
    }
    facts.tie = !tied.is_empty();
    let c2 = c.clone();
    let res = quiet_catch(move || {
        let log: Log = Default::default();
        let mut sim = Sim::new(());
        sim.node("m", Mo { tasks: c2.tasks.clone(), log: log.clone(), restart: c2.restart, flag: None, incarnation: 0 });
        let r = Builder::seeded(1).quiet().build(sim.freeze()).run();
        let (ok, end) = match &r {
            Ok((_, t, _)) => (Ok(()), (t.as_nanos() / 1_000_000) as u64),
            Err(e) => (Err(format!("{e:?}")), 0),
        };
        drop(r);
        let l = log.lock().unwrap().clone();
        (ok, end, l)
    });
    let (ok, end, mut got) = res.map_err(|m| format!("panicked: {m}"))?;
    got.sort_unstable();
    exp.sort_unstable();
    // tolerated ties: value 1 or 2 at the same instant
    let norm = |v: &Vec<Entry>| -> Vec<Entry> { v.iter().map(|e| if tied.contains(&(e.0, e.1)) { (e.0, e.1, e.2, 0) } else { *e }).collect() };
    if norm(&got) != norm(&exp) {
        let missing: Vec<&Entry> = exp.iter().filter(|e| !got.contains(e)).collect();
        let extra: Vec<&Entry> = got.iter().filter(|e| !exp.contains(e)).collect();
        return Err(format!(
            "task log (task, step, time ms, value) differs from the exact-time reference: expected but missing {missing:?}, observed but unexpected {extra:?}{}",
            if let Err(e) = &ok { format!("; run error: {}", e.chars().take(160).collect::<String>()) } else { String::new() }
        ));
    }
    if let Err(e) = ok {
        return Err(format!("every step completed as expected but the run returned an error: {}", e.chars().take(200).collect::<String>()));
    }
    if end < last_completion || end > max_deadline {
        return Err(format!("run ended at {end}ms; last expected completion {last_completion}ms, latest finite deadline ever registered {max_deadline}ms"));
    }
    Ok(vcheck::fp(&got))
}

fn alphabet(tier: Tier) -> Vec<Step> {
    let ds = [0u64, S, 2 * S, 3 * S];
    let mut a = vec![];
    for &d in &ds {
        a.push(Step::Sleep(d));
        a.push(Step::DropPolled(d));
        a.push(Step::Until(d + 2 * S));
        a.push(Step::TimeoutNever(d, false));
        a.push(Step::TimeoutNever(d, true));
        a.push(Step::TimeoutFlag(d));
        a.push(Step::SelFar(d, false));
        a.push(Step::SelFar(d, true));
        for &e in &ds {
            a.push(Step::Timeout(d, e));
            a.push(Step::Sel(d, e));
            a.push(Step::ResetFresh(d, e));
            a.push(Step::ResetPolled(d, e));
        }
    }
    a.push(Step::WaitFlag);
    for d0 in [S, 3 * S] {
        for w in [S, 2 * S] {
            for d1 in [0, S, 2 * S, 3 * S] {
                a.push(Step::ResetAfterWait(d0, w, d1));
            }
        }
    }
    a.push(Step::IntervalReset(S));
    a.push(Step::IntervalReset(2 * S));
    a.push(Step::TwinDropFirst(S));
    a.push(Step::TwinDropFirst(2 * S));
    for p in [S, 2 * S] {
        for beh in [Beh::Burst, Beh::Delay, Beh::Skip] {
            for gap in [0u64, p / 2, p + 3, p + 6, 2 * p + 6, 5 * S] {
                a.push(Step::Interval(p, beh, gap));
            }
        }
    }
    let _ = tier;
    a
}

/// core steps used for the largest product of the quick tier
fn core(alpha: &[Step]) -> Vec<Step> {
    alpha
        .iter()
        .copied()
        .filter(|s| match s {
            Step::Interval(p, _, g) => *p == S && (*g == 0 || *g == S + 6),
            Step::ResetAfterWait(d0, w, _) => *d0 == 3 * S && *w == S,
            Step::Timeout(d, e) | Step::Sel(d, e) | Step::ResetFresh(d, e) | Step::ResetPolled(d, e) => *d <= 2 * S && *e <= 2 * S,
            Step::TimeoutNever(d, _) | Step::SelFar(d, _) | Step::DropPolled(d) | Step::Sleep(d) | Step::TimeoutFlag(d) => *d <= 2 * S,
            Step::Until(t) => *t <= 4 * S,
            _ => true,
        })
        .collect()
}

impl Property for C05 {
    fn id(&self) -> &'static str {
        "C05"
    }
    fn rule(&self, tier: Tier) -> String {
        let n = alphabet(tier).len();
        format!(
            "step alphabet of {n} steps (sleep, sleep_until, timeout over sleep / pending / far-future / message-fed flag, biased select of two sleeps and of a far-future sleep in both branch orders, create-poll-drop, reset before/after first poll (also to the same, an earlier or an already passed deadline, and after another timer ran), interval reset, interval x {{Burst, Delay, Skip}} x busy gaps {{0, p/2, p+3ms, p+6ms, 2p+6ms, 5s}}, wait for a message-fed flag; delays 0..3 s); \
             enumerated completely: one task with every script of 1..={} steps; two tasks (1 step | 1 step) for every combination; two tasks (1 step | 2 steps) over {}; the same scripts of up to 2 steps with the module shut down at 1.25 s and restarted 1 s later; one module whose timers have deadlines inside one millisecond (sleeps at 1.0002 / 1.0007 / 1.000999 / 1.001 s, a timeout at 1.0005 s, a 2.5 ms interval; armed in both orders); 61 / 62 / 80 / 130 tasks running one script (sleep, two sleeps, timeout, select) so that their timers share deadlines, without and with that restart; \
             oracle: reference interpreter with exact virtual time: every await returns at exactly the computed instant with the computed value, every joined task finishes, run end in [last completion, latest finite deadline registered]; a message-fed future becoming ready at exactly a competing deadline accepts both results; \
             non-trivial = script in which a live timer has to fire behind a cancelled / dropped / already-fired one",
            tier.pick(2, 3),
            tier.pick("(core sub-alphabet: delays up to 2 s, two interval variants) | (full alphabet)", "the full alphabet, plus three tasks (1|1|1) over the core sub-alphabet")
        )
    }
    fn assumptions(&self) -> Vec<String> {
        vec![
            "sleeps polled with a changing waker (FuturesUnordered, hand-written combinators) are outside the alphabet".into(),
            "tokio::select! is always used with `biased`, the branch order is part of the script".into(),
        ]
    }
    fn required_features(&self, _tier: Tier) -> Vec<&'static str> {
        vec!["live_timer_behind_cancelled_one", "message_timer_tie", "two_tasks", "restart_variant", "interval_missed_tick", "many_timers_sharing_a_deadline", "deadlines_within_one_millisecond", "very_long_sleeps_and_deadlines_around_2^32_seconds"]
    }
    fn explore(&self, ctx: &mut Ctx) {
        if ctx.is_first_shard() {
            for later_first in [false, true] {
                ctx.out.evaluations += 1;
                ctx.hit("deadlines_within_one_millisecond");
                match run_fine(later_first) {
                    Ok(o) => ctx.outcome(o),
                    Err(d) => ctx.violation("violation", || json!({"sub_millisecond_probe": later_first}), d),
                }
            }
        }
        for which in 0..3u8 {
            for reversed in [false, true] {
                if !ctx.mine_key(u64::from(which) * 2 + u64::from(reversed)) {
                    continue;
                }
                ctx.out.evaluations += 1;
                ctx.hit("very_long_sleeps_and_deadlines_around_2^32_seconds");
                match run_far(which, reversed) {
                    Ok(o) => ctx.outcome(o),
                    Err(d) => ctx.violation("violation", || json!({"large_value_probe": which, "reversed": reversed}), d),
                }
            }
        }
        let alpha = alphabet(ctx.tier);
        let mut cases: Vec<Case> = vec![];
        // one task: all scripts of 1..=L steps
        let l = ctx.tier.pick(2, 3);
        let mut stack: Vec<Vec<Step>> = alpha.iter().map(|s| vec![*s]).collect();
        while let Some(sc) = stack.pop() {
            if sc.len() < l {
                for s in &alpha {
                    let mut s2 = sc.clone();
                    s2.push(*s);
                    stack.push(s2);
                }
            }
            if ctx.mine() {
                if sc.len() <= 2 {
                    cases.push(Case { tasks: vec![sc.clone()], restart: Some((1250, 1000)) });
                }
                cases.push(Case { tasks: vec![sc], restart: None });
            }
        }
        // two tasks: (1 step | 1 step) and (1 step | 2 steps)
        for a in &alpha {
            for b in &alpha {
                if ctx.mine() {
                    cases.push(Case { tasks: vec![vec![*a], vec![*b]], restart: None });
                }
                if ctx.tier == Tier::Thorough {
                    for c in &alpha {
                        if ctx.mine() {
                            cases.push(Case { tasks: vec![vec![*a], vec![*b, *c]], restart: None });
                        }
                    }
                }
            }
        }
        let small = core(&alpha);
        if ctx.tier == Tier::Quick {
            for a in &small {
                for b in &alpha {
                    for c in &alpha {
                        if ctx.mine() {
                            cases.push(Case { tasks: vec![vec![*a], vec![*b, *c]], restart: None });
                        }
                    }
                }
            }
        } else {
            for a in &small {
                for b in &small {
                    for c in &small {
                        if ctx.mine() {
                            cases.push(Case { tasks: vec![vec![*a], vec![*b], vec![*c]], restart: None });
                        }
                    }
                }
            }
        }
        // many timers of one module sharing their deadlines, in a fresh and in a restarted incarnation
        for script in [vec![Step::Sleep(S)], vec![Step::Sleep(2 * S), Step::Sleep(S)], vec![Step::Timeout(S, 2 * S)], vec![Step::Sel(S, 2 * S)]] {
            for n in [61usize, 62, 80, 130] {
                for restart in [None, Some((1250u64, 1000u64))] {
                    if ctx.mine() {
                        ctx.hit("many_timers_sharing_a_deadline");
                        cases.push(Case { tasks: vec![script.clone(); n], restart });
                    }
                }
            }
        }
        for c in cases {
            let mut f = Facts::default();
            ctx.begin(|| case_json(&c));
            let r = run_case(&c, &mut f);
            ctx.out.evaluations += 1;
            ctx.out.traces += 1;
            ctx.out.states += 1;
            ctx.out.transitions += c.tasks.iter().map(|t| t.len() as u64).sum::<u64>();
            if f.cancelled_before_live {
                ctx.hit("live_timer_behind_cancelled_one");
                ctx.out.nontrivial += 1;
            }
            if f.tie {
                ctx.hit("message_timer_tie");
            }
            if c.tasks.len() > 1 {
                ctx.hit("two_tasks");
            }
            if c.restart.is_some() {
                ctx.hit("restart_variant");
            }
            if c.tasks.iter().flatten().any(|s| matches!(s, Step::Interval(p, _, g) if *g > p + 5)) {
                ctx.hit("interval_missed_tick");
            }
            match r {
                Ok(o) => {
                    ctx.outcome(o);
                    if f.cancelled_before_live && c.tasks.len() == 2 {
                        ctx.sample(|| case_json(&c));
                    }
                }
                Err(d) => ctx.violation("violation", || case_json(&c), d),
            }
        }
    }
    fn replay(&self, case: &Value) -> Result<(), String> {
        if let Some(w) = case.get("large_value_probe") {
            return run_far(w.as_u64().unwrap() as u8, case["reversed"].as_bool().unwrap()).map(|_| ());
        }
        if let Some(lf) = case.get("sub_millisecond_probe") {
            return run_fine(lf.as_bool().unwrap()).map(|_| ());
        }
        run_case(&decode(case), &mut Facts::default()).map(|_| ())
    }
}

fn main() {
    run_property(&C05);
}
