//! C20 — dropping a simulation releases every module, task and message exactly once.
//! Generated simulations (parent/child modules, a ring of channels through a transit gate,
//! channel backlog under three queue policies, nodes made from the library's building blocks (AsyncFn::new / io / failable, ModuleFn, HandlerFn) holding counted state, tasks blocked on timers / receives / far-future
//! sleeps and holding messages, processing elements, a shut-down-and-restarted module, a
//! panicking module) x every stopping point (never built, built, started and partly stepped,
//! every event-count limit, time limits, run to completion, ended with errors) x drop order,
//! with a live-object counter per kind; afterwards a reference simulation in the same process
//! must reproduce the baseline trace.

use des::net::processing::{ProcessingElement, ProcessingStack};
use des::prelude::*;
use des::time::sleep;
use std::sync::atomic::{AtomicIsize, Ordering::SeqCst};
use std::sync::{Arc, Mutex};
use vcheck::{json, quiet_catch, run_property, Ctx, Property, Tier, Value};

struct C20;

static LIVE: [AtomicIsize; 5] = [AtomicIsize::new(0), AtomicIsize::new(0), AtomicIsize::new(0), AtomicIsize::new(0), AtomicIsize::new(0)];
static DOUBLE: AtomicIsize = AtomicIsize::new(0);
const KINDS: [&str; 5] = ["module states", "task captures", "message bodies", "processing elements", "channel probes"];
const MODS: usize = 0;
const TASK: usize = 1;
const BODY: usize = 2;
const PE: usize = 3;
const PROBE: usize = 4;

#[derive(Debug)]
struct Tok(usize, bool);
impl Tok {
    fn new(k: usize) -> Self {
        LIVE[k].fetch_add(1, SeqCst);
        Tok(k, false)
    }
}
impl Clone for Tok {
    fn clone(&self) -> Self {
        Tok::new(self.0)
    }
}
impl Drop for Tok {
    fn drop(&mut self) {
        if self.1 {
            DOUBLE.fetch_add(1, SeqCst);
        }
        self.1 = true;
        if LIVE[self.0].fetch_sub(1, SeqCst) <= 0 {
            DOUBLE.fetch_add(1, SeqCst);
        }
    }
}
impl MessageBody for Tok {
    fn byte_len(&self) -> usize {
        100
    }
}

/// zero-sized message body with an observable destructor (a Box of it owns no allocation)
#[derive(Debug)]
struct Zt;
impl Zt {
    fn new() -> Self {
        LIVE[BODY].fetch_add(1, SeqCst);
        Zt
    }
}
impl Clone for Zt {
    fn clone(&self) -> Self {
        Zt::new()
    }
}
impl Drop for Zt {
    fn drop(&mut self) {
        if LIVE[BODY].fetch_sub(1, SeqCst) <= 0 {
            DOUBLE.fetch_add(1, SeqCst);
        }
    }
}
impl MessageBody for Zt {
    fn byte_len(&self) -> usize {
        100
    }
}

struct Pel(#[allow(dead_code)] Tok);
/// simulated time (ms) from which every processing element's event_start panics (0 = never)
static BOMB_AT_MS: AtomicIsize = AtomicIsize::new(0);
impl ProcessingElement for Pel {
    fn event_start(&mut self) {
        let at = BOMB_AT_MS.load(SeqCst);
        assert!(!(at > 0 && SimTime::now().as_millis() as isize >= at), "processing element gives up");
    }
}

/// user object attached to a channel
struct Probe(#[allow(dead_code)] Tok);
impl des::net::channel::ChannelProbe for Probe {
    fn on_message_transmit(&mut self, _: &ChannelMetrics, _: &Message) {}
}

#[derive(Clone, Copy, Debug, PartialEq)]
struct Cfg {
    policy: u8, // 0 drop, 1 queue unbounded, 2 queue 200 bytes
    tasks: bool,
    shutdown: bool,
    panic: bool,
    burst: u32,
    pes: bool,
    /// the sender emits a message and a self message from at_sim_end (allowed, never processed)
    send_at_end: bool,
    /// a closed gate ring with probed channels
    ring: bool,
    /// three neighbours of the gate ring try to send on their (transit) ring gate at 0.25 s: the
    /// send is rejected with a panic, which their stereotype catches
    bad_send: bool,
}

fn catch_panics() {
    current().set_stereotyp(des::net::module::Stereotyp { on_panic_catch: true, ..Default::default() });
}

struct Tx {
    _t: Tok,
    cfg: Cfg,
}
impl Module for Tx {
    fn at_sim_start(&mut self, _: usize) {
        for i in 0..self.cfg.burst {
            if i % 2 == 1 {
                send(Message::default().id(i as u16).with_content(Zt::new()), "out");
            } else {
                send(Message::default().id(i as u16).with_content(Tok::new(BODY)), "out");
            }
        }
        schedule_in(Message::default().kind(5).with_content(Tok::new(BODY)), Duration::from_secs(3));
        if self.cfg.tasks {
            let t = Tok::new(TASK);
            tokio::spawn(async move {
                sleep(Duration::from_secs(1000)).await;
                drop(t);
            });
            let t = Tok::new(TASK);
            tokio::spawn(async move {
                sleep(Duration::MAX).await;
                drop(t);
            });
        }
    }
    fn handle_message(&mut self, m: Message) {
        if m.header().kind == 5 {
            send(m, "out");
        }
    }
    fn at_sim_end(&mut self) -> Result<(), RuntimeError> {
        if self.cfg.send_at_end {
            send(Message::default().kind(11).with_content(Tok::new(BODY)), "out");
            schedule_in(Message::default().kind(12).with_content(Zt::new()), Duration::from_secs(1));
        }
        Ok(())
    }
    fn stack(&self, mut s: ProcessingStack) -> ProcessingStack {
        if self.cfg.pes {
            s.append(Pel(Tok::new(PE)));
        }
        s
    }
}
struct Rx {
    _t: Tok,
    cfg: Cfg,
    tx: Option<tokio::sync::mpsc::Sender<Message>>,
}
impl Module for Rx {
    fn at_sim_start(&mut self, _: usize) {
        if self.cfg.bad_send {
            catch_panics();
            schedule_in(Message::default().kind(13), Duration::from_millis(250));
        }
        if self.cfg.tasks {
            let (tx, mut rx) = tokio::sync::mpsc::channel::<Message>(16);
            self.tx = Some(tx);
            let t = Tok::new(TASK);
            tokio::spawn(async move {
                let _t = t;
                let mut held = vec![];
                while let Some(m) = rx.recv().await {
                    held.push(m);
                }
            });
        }
    }
    fn handle_message(&mut self, m: Message) {
        if m.header().kind == 13 {
            send(Message::default().kind(14).with_content(Tok::new(BODY)), "ring");
        }
        if m.header().id == 1 {
            send(Message::default().kind(7).with_content(Zt::new()), "back");
        }
        assert!(!(self.cfg.panic && m.header().id == 2), "rx gives up");
        if let Some(tx) = &self.tx {
            let _ = tx.try_send(m);
        }
    }
}
struct Mid {
    _t: Tok,
    shutdown: bool,
    bad: bool,
}
impl Module for Mid {
    fn at_sim_start(&mut self, _: usize) {
        // plain lookups of relatives (nothing is kept)
        let _ = current().parent().map(|p| p.path());
        let _ = current().child("no-such-child").is_err();
        if self.bad {
            catch_panics();
            schedule_in(Message::default().kind(13), Duration::from_millis(250));
        }
        if self.shutdown && SimTime::now() == SimTime::ZERO {
            schedule_in(Message::default().kind(9), Duration::from_secs_f64(1.5));
        }
        let t = Tok::new(TASK);
        tokio::spawn(async move {
            let _t = t;
            sleep(Duration::from_secs(50)).await;
        });
    }
    fn handle_message(&mut self, m: Message) {
        if m.header().kind == 9 {
            current().shutdow_and_restart_in(Duration::from_secs(2));
        }
        if m.header().kind == 13 {
            send(Message::default().kind(14).with_content(Tok::new(BODY)), "ring");
        }
    }
}

fn policy_of(c: &Cfg) -> ChannelDropBehaviour {
    match c.policy {
        0 => ChannelDropBehaviour::Drop,
        1 => ChannelDropBehaviour::Queue(None),
        _ => ChannelDropBehaviour::Queue(Some(200)),
    }
}

fn build(c: &Cfg) -> des::net::SimBuilder<()> {
    let mut s = Sim::new(());
    if c.pes {
        s.set_stack(|| Pel(Tok::new(PE)));
    }
    s.node("tx", Tx { _t: Tok::new(MODS), cfg: *c });
    s.node("mid", Mid { _t: Tok::new(MODS), shutdown: c.shutdown, bad: c.bad_send });
    s.node("rx", Rx { _t: Tok::new(MODS), cfg: *c, tx: None });
    s.node("rx.child", Mid { _t: Tok::new(MODS), shutdown: false, bad: c.bad_send });
    if c.tasks {
        // nodes made from the library's building blocks, each holding counted state
        use des::net::blocks::{AsyncFn, HandlerFn, ModuleFn};
        s.node(
            "bl_io",
            AsyncFn::io(|mut rx| {
                let t = Tok::new(TASK);
                schedule_in(Message::default().kind(20).with_content(Tok::new(BODY)), Duration::from_secs(2));
                async move {
                    let _t = t;
                    let mut held = vec![];
                    while let Some(m) = rx.recv().await {
                        held.push(m);
                    }
                    Ok(())
                }
            }),
        );
        s.node(
            "bl_failable",
            AsyncFn::failable(|_rx| {
                let t = Tok::new(TASK);
                async move {
                    let _t = t;
                    for _ in 0..1000 {
                        sleep(Duration::from_secs(7)).await;
                    }
                    Ok::<(), std::io::Error>(())
                }
            }),
        );
        s.node(
            "bl_new",
            AsyncFn::new(|mut rx| {
                let t = Tok::new(TASK);
                schedule_in(Message::default().kind(21).with_content(Zt::new()), Duration::from_secs(4));
                async move {
                    let _t = t;
                    while let Some(m) = rx.recv().await {
                        drop(m);
                    }
                }
            }),
        );
        s.node("bl_module_fn", ModuleFn::new(|| Tok::new(MODS), |_state, _m| {}));
        let held = Tok::new(MODS);
        s.node(
            "bl_handler_fn",
            HandlerFn::new(move |_m| {
                let _ = &held;
            }),
        );
    }
    let a = s.gate("tx", "out");
    let t = s.gate("mid", "transit");
    let b = s.gate("rx", "in");
    let policy = policy_of(c);
    let ch = || Some(Channel::new(ChannelMetrics::new(8000, Duration::from_millis(500), Duration::ZERO, policy)));
    a.connect(t.clone(), ch());
    t.connect(b, ch());
    let back = s.gate("rx", "back");
    let txin = s.gate("tx", "in");
    back.connect(txin, ch());
    if c.ring {
        // a closed ring of gates (every gate has two peers, none is an endpoint), with probed channels
        let ring = [s.gate("tx", "ring"), s.gate("mid", "ring"), s.gate("rx", "ring"), s.gate("rx.child", "ring")];
        for i in 0..ring.len() {
            let chan = Channel::new(ChannelMetrics::new(8000, Duration::from_millis(100), Duration::ZERO, policy));
            chan.attach_probe(Probe(Tok::new(PROBE)));
            ring[i].clone().connect(ring[(i + 1) % ring.len()].clone(), Some(chan));
        }
        // probes on an open chain too
        let c2 = Channel::new(ChannelMetrics::new(0, Duration::from_millis(1), Duration::ZERO, policy));
        c2.attach_probe(Probe(Tok::new(PROBE)));
        s.gate("tx", "side").connect(s.gate("rx.child", "side"), Some(c2));
    }
    s
}

#[derive(Clone, Copy, Debug, PartialEq)]
enum Stop {
    NeverBuilt,
    Built,
    /// started, then k events dispatched by hand, then dropped without finish
    Stepped(usize),
    /// run with max_itr(k); order of dropping (app, profiler with remaining events)
    MaxItr(usize, bool),
    /// run with max_time(t tenths of a second)
    MaxTime(u64),
    /// a processing element panics in event_start from t tenths of a second on; des does not catch
    /// that, the panic unwinds out of run() and is caught by the caller, then everything is dropped
    HookPanic(u64),
}

fn live() -> [isize; 5] {
    [LIVE[0].load(SeqCst), LIVE[1].load(SeqCst), LIVE[2].load(SeqCst), LIVE[3].load(SeqCst), LIVE[4].load(SeqCst)]
}
fn reset_counters() {
    for a in &LIVE {
        a.store(0, SeqCst);
    }
    DOUBLE.store(0, SeqCst);
}

fn execute(c: &Cfg, stop: Stop) -> Result<usize, String> {
    let c = *c;
    quiet_catch(move || -> usize {
        match stop {
            Stop::NeverBuilt => {
                let sim = build(&c);
                drop(sim);
                0
            }
            Stop::Built => {
                let rt = Builder::seeded(1).quiet().build(build(&c).freeze());
                drop(rt);
                0
            }
            Stop::Stepped(k) => {
                let mut rt = Builder::seeded(1).quiet().build(build(&c).freeze());
                rt.start();
                rt.dispatch_n_events(k);
                let n = rt.num_events_remaining();
                drop(rt);
                n
            }
            Stop::MaxItr(k, order) => {
                let r = Builder::seeded(1).quiet().max_itr(k).build(build(&c).freeze()).run();
                match r {
                    Ok((app, _t, prof)) => {
                        let n = prof.remaining.len();
                        if order {
                            drop(app);
                            drop(prof);
                        } else {
                            drop(prof);
                            drop(app);
                        }
                        n
                    }
                    Err(e) => {
                        drop(e);
                        0
                    }
                }
            }
            Stop::HookPanic(t) => {
                BOMB_AT_MS.store((t * 100) as isize, SeqCst);
                let r = std::panic::catch_unwind(std::panic::AssertUnwindSafe(|| Builder::seeded(1).quiet().max_time(60.0.into()).build(build(&c).freeze()).run()));
                BOMB_AT_MS.store(0, SeqCst);
                vcheck::lab::silence_panics();
                drop(r);
                0
            }
            Stop::MaxTime(t) => {
                let r = Builder::seeded(1).quiet().max_time((t as f64 / 10.0).into()).build(build(&c).freeze()).run();
                let n = r.as_ref().map_or(0, |x| x.2.remaining.len());
                drop(r);
                n
            }
        }
    })
    .map_err(|m| format!("panicked: {m}"))
}

fn total_events(c: &Cfg) -> usize {
    let c = *c;
    let n = quiet_catch(move || {
        let r = Builder::seeded(1).quiet().max_time(60.0.into()).build(build(&c).freeze()).run();
        match r {
            Ok(x) => x.2.event_count,
            // ended with errors: count events by stepping
            Err(_) => {
                let mut rt = Builder::seeded(1).quiet().max_time(60.0.into()).build(build(&c).freeze());
                rt.start();
                rt.dispatch_all();
                rt.num_events_dispatched()
            }
        }
    })
    .unwrap_or(40);
    reset_counters();
    n
}

// ---- reference simulation: "a new simulation behaves as in a fresh process" --------------

type Log = Arc<Mutex<Vec<(u128, String)>>>;
struct RefMod {
    log: Log,
    name: &'static str,
}
impl Module for RefMod {
    fn at_sim_start(&mut self, _: usize) {
        schedule_in(Message::default().kind(1), Duration::from_millis(700));
        let l = self.log.clone();
        let n = self.name;
        tokio::spawn(async move {
            for i in 0..3 {
                sleep(Duration::from_millis(400)).await;
                l.lock().unwrap().push((SimTime::now().as_nanos(), format!("{n}:tick{i}:{}", des::runtime::random::<u8>())));
            }
        });
    }
    fn handle_message(&mut self, m: Message) {
        self.log.lock().unwrap().push((SimTime::now().as_nanos(), format!("{}:k{}", self.name, m.header().kind)));
        if m.header().kind == 1 {
            send(Message::default().kind(2), "out");
        }
    }
}
fn reference_trace() -> Result<u64, String> {
    quiet_catch(|| {
        let log: Log = Default::default();
        let mut sim = Sim::new(());
        sim.node("x", RefMod { log: log.clone(), name: "x" });
        sim.node("y", RefMod { log: log.clone(), name: "y" });
        let ch = Some(Channel::new(ChannelMetrics::new(1000, Duration::from_millis(30), Duration::from_millis(5), ChannelDropBehaviour::Queue(None))));
        sim.gate("x", "out").connect(sim.gate("y", "out"), ch);
        let r = Builder::seeded(7).quiet().build(sim.freeze()).run();
        let ok = r.is_ok();
        drop(r);
        let l = log.lock().unwrap().clone();
        vcheck::fp(&(l, ok))
    })
    .map_err(|m| format!("reference simulation panicked: {m}"))
}

fn case_json(c: &Cfg, stop: Stop) -> Value {
    json!({"policy": c.policy, "tasks": c.tasks, "shutdown": c.shutdown, "panic": c.panic, "burst": c.burst, "pes": c.pes, "send_at_end": c.send_at_end, "ring": c.ring, "bad_send": c.bad_send,
           "stop": match stop { Stop::NeverBuilt => json!("never_built"), Stop::Built => json!("built_not_started"), Stop::Stepped(k) => json!({"stepped": k}),
                                Stop::MaxItr(k, o) => json!({"max_itr": k, "drop_app_first": o}), Stop::MaxTime(t) => json!({"max_time_tenths": t}), Stop::HookPanic(t) => json!({"hook_panic_tenths": t}) }})
}
fn case_from(v: &Value) -> (Cfg, Stop) {
    let c = Cfg {
        policy: v["policy"].as_u64().unwrap() as u8,
        tasks: v["tasks"].as_bool().unwrap(),
        shutdown: v["shutdown"].as_bool().unwrap(),
        panic: v["panic"].as_bool().unwrap(),
        burst: v["burst"].as_u64().unwrap() as u32,
        pes: v["pes"].as_bool().unwrap(),
        send_at_end: v["send_at_end"].as_bool().unwrap_or(false),
        ring: v["ring"].as_bool().unwrap_or(false),
        bad_send: v["bad_send"].as_bool().unwrap_or(false),
    };
    let s = &v["stop"];
    let stop = if s == "never_built" {
        Stop::NeverBuilt
    } else if s == "built_not_started" {
        Stop::Built
    } else if let Some(t) = s.get("hook_panic_tenths") {
        Stop::HookPanic(t.as_u64().unwrap())
    } else if let Some(k) = s.get("stepped") {
        Stop::Stepped(k.as_u64().unwrap() as usize)
    } else if let Some(k) = s.get("max_itr") {
        Stop::MaxItr(k.as_u64().unwrap() as usize, s["drop_app_first"].as_bool().unwrap())
    } else {
        Stop::MaxTime(s["max_time_tenths"].as_u64().unwrap())
    };
    (c, stop)
}

fn check(c: &Cfg, stop: Stop, baseline: u64) -> Result<(u64, usize), String> {
    reset_counters();
    let remaining = execute(c, stop)?;
    let l = live();
    let d = DOUBLE.load(SeqCst);
    reset_counters();
    if l != [0, 0, 0, 0, 0] {
        let parts: Vec<String> = (0..5).filter(|&k| l[k] != 0).map(|k| format!("{} {}", l[k], KINDS[k])).collect();
        return Err(format!("after the simulation was dropped these objects are still alive: {}", parts.join(", ")));
    }
    if d != 0 {
        return Err(format!("{d} objects were dropped more than once"));
    }
    let after = reference_trace()?;
    if after != baseline {
        return Err("a new simulation in the same process no longer reproduces the baseline trace".into());
    }
    Ok((vcheck::fp(&(format!("{stop:?}"), remaining)), remaining))
}

impl Property for C20 {
    fn id(&self) -> &'static str {
        "C20"
    }
    fn rule(&self, tier: Tier) -> String {
        format!(
            "generated simulations: queue policy {{Drop, Queue(None), Queue(200 B)}} x tasks (timer-blocked, far-future, receive loop holding messages) on/off x shut-down-and-restarted transit module on/off x panicking receiver on/off x burst {:?} x processing elements on/off x messages emitted from at_sim_end on/off x a closed gate ring with probed channels on/off (once more with three ring neighbours whose send on their transit ring gate is rejected, the panic caught by their stereotype), \
             on a fixed topology with a parent/child pair and a ring of three busy channels through a transit gate; stopping points: builder dropped, built not started, started and stepped k events for k in 0..={}, max_itr(k) for every k up to the total + 1 in both drop orders (app first / profiler with remaining events first), max_time in {{0, 0.5, .., 4, 10, 60}} s (thorough: every 0.1 s up to 6 s), and (with processing elements) a panic of an element hook at 0.5 / 1 / 2 / 3.5 s that unwinds out of run() and is caught by the caller; \
             oracle: per-kind live-object counters (module states, task captures, message bodies of a sized and of a zero-sized type, processing elements, channel probes) all zero and no double drop after the last handle is gone; then a reference simulation must reproduce the trace it gave before anything else ran in the process (and the same in every worker process); \
             non-trivial = stopping point that leaves events, queued messages or blocked tasks behind",
            tier.pick(vec![3u32, 5], vec![1u32, 3, 5, 8]),
            tier.pick(6, 12)
        )
    }
    fn assumptions(&self) -> Vec<String> {
        vec!["user-level reference cycles (a task capturing its own module handle) are outside the alphabet".into()]
    }
    fn required_features(&self, _tier: Tier) -> Vec<&'static str> {
        vec!["stopped_with_remaining_events", "panic_of_an_element_hook_unwinds_out_of_run", "queue_policy_with_backlog", "ended_with_errors", "never_started", "stepped_without_finish", "restarted_module", "message_emitted_during_teardown", "closed_gate_ring_with_probes", "rejected_sends_on_neighbouring_transit_gates"]
    }
    fn explore(&self, ctx: &mut Ctx) {
        let baseline = match reference_trace() {
            Ok(b) => b,
            Err(e) => {
                ctx.out.capped.push(format!("MACHINERY: {e}"));
                return;
            }
        };
        ctx.out.extra.insert(format!("baseline_trace_{baseline:016x}_workers"), json!(1));
        let bursts = ctx.tier.pick(vec![3u32, 5], vec![1u32, 3, 5, 8]);
        let maxstep = ctx.tier.pick(6, 12);
        for policy in 0..3u8 {
            for tasks in [false, true] {
                for shutdown in [false, true] {
                    for panic in [false, true] {
                        for &burst in &bursts {
                            for (pes, send_at_end, ring, bad_send) in [(false, false, false, false), (true, false, true, false), (false, true, false, false), (true, true, true, false), (false, false, true, true)] {
                                let c = Cfg { policy, tasks, shutdown, panic, burst, pes, send_at_end, ring, bad_send };
                                if !ctx.mine() {
                                    continue;
                                }
                                let total = total_events(&c);
                                let mut stops = vec![Stop::NeverBuilt, Stop::Built];
                                stops.extend((0..=maxstep).map(Stop::Stepped));
                                for k in 0..=total + 1 {
                                    stops.push(Stop::MaxItr(k, false));
                                    stops.push(Stop::MaxItr(k, true));
                                }
                                if ctx.tier == Tier::Thorough {
                                    stops.extend((0u64..=60).map(Stop::MaxTime));
                                    stops.extend([100u64, 600].map(Stop::MaxTime));
                                } else {
                                    stops.extend([0u64, 5, 10, 15, 20, 25, 30, 35, 40, 100, 600].map(Stop::MaxTime));
                                }
                                if pes {
                                    // (t = 0 would blow up in the start stage; the others during the run)
                                    stops.extend([5u64, 10, 20, 35].map(Stop::HookPanic));
                                }
                                for stop in stops {
                                    if matches!(stop, Stop::HookPanic(_)) {
                                        ctx.hit("panic_of_an_element_hook_unwinds_out_of_run");
                                    }
                                    ctx.begin(|| case_json(&c, stop));
                                    ctx.out.evaluations += 1;
                                    ctx.out.traces += 1;
                                    ctx.out.states += 1;
                                    ctx.out.transitions += 1;
                                    match stop {
                                        Stop::NeverBuilt | Stop::Built => ctx.hit("never_started"),
                                        Stop::Stepped(_) => ctx.hit("stepped_without_finish"),
                                        _ => {}
                                    }
                                    if panic {
                                        ctx.hit("ended_with_errors");
                                    }
                                    if shutdown {
                                        ctx.hit("restarted_module");
                                    }
                                    if send_at_end {
                                        ctx.hit("message_emitted_during_teardown");
                                    }
                                    if ring {
                                        ctx.hit("closed_gate_ring_with_probes");
                                    }
                                    if bad_send {
                                        ctx.hit("rejected_sends_on_neighbouring_transit_gates");
                                    }
                                    match check(&c, stop, baseline) {
                                        Ok((o, remaining)) => {
                                            ctx.outcome(o);
                                            if remaining > 0 {
                                                ctx.hit("stopped_with_remaining_events");
                                                ctx.out.nontrivial += 1;
                                                if policy > 0 {
                                                    ctx.hit("queue_policy_with_backlog");
                                                }
                                                if tasks && shutdown {
                                                    ctx.sample(|| case_json(&c, stop));
                                                }
                                            }
                                        }
                                        Err(d) => ctx.violation("violation", || case_json(&c, stop), d),
                                    }
                                }
                            }
                        }
                    }
                }
            }
        }
    }
    fn post(&self, _tier: Tier, merged: &mut vcheck::driver::Out) {
        let keys: Vec<&String> = merged.extra.keys().filter(|k| k.starts_with("baseline_trace_")).collect();
        if keys.len() > 1 {
            *merged.viol_counts.entry("violation".into()).or_insert(0) += 1;
            merged.viols.push(vcheck::driver::Viol {
                class: "violation".into(),
                case: json!({"cross_process": keys}),
                detail: format!("the reference simulation produced different traces in different worker processes: {keys:?}"),
                shard: None,
            });
        }
    }
    fn replay(&self, case: &Value) -> Result<(), String> {
        if case.get("cross_process").is_some() {
            return Ok(());
        }
        let (c, stop) = case_from(case);
        let baseline = reference_trace()?;
        check(&c, stop, baseline).map(|_| ())
    }
}

fn main() {
    run_property(&C20);
}
