//! C07 — channels account for every message with the specified delay, busy and drop rules.
//! Complete enumeration of channel metrics x traffic patterns (sizes, gaps around the
//! transmission time, bursts in one handler) on a real 2-module simulation, against a
//! reference channel (idle / busy-until, FIFO, byte counter) that branches on same-instant
//! ties; live-object counter for message bodies.

use des::prelude::*;
use std::collections::VecDeque;
use std::sync::atomic::{AtomicIsize, Ordering::SeqCst};
use std::sync::{Arc, Mutex};
use vcheck::{json, quiet_catch, run_property, Ctx, Property, Tier, Value};

struct C07;

static LIVE: AtomicIsize = AtomicIsize::new(0);
#[derive(Debug)]
struct Tok(usize);
impl Tok {
    fn new(len: usize) -> Self {
        LIVE.fetch_add(1, SeqCst);
        Tok(len)
    }
}
impl Clone for Tok {
    fn clone(&self) -> Self {
        Tok::new(self.0)
    }
}
impl Drop for Tok {
    fn drop(&mut self) {
        LIVE.fetch_sub(1, SeqCst);
    }
}
impl MessageBody for Tok {
    fn byte_len(&self) -> usize {
        self.0
    }
}

/// start time of the running simulation (ns); logged times are relative to it
static BASE: std::sync::atomic::AtomicU64 = std::sync::atomic::AtomicU64::new(0);
const FAR_NS: u64 = 20_000_000_123_456_789;
fn base() -> u64 {
    BASE.load(SeqCst)
}
fn rel_now() -> u128 {
    SimTime::now().as_nanos() - u128::from(base())
}

type Log = Arc<Mutex<Vec<(u16, u128)>>>;
/// (time, is_busy, transmission_finish_time ns) sampled at the start of every sender tick
type BusyLog = Arc<Mutex<Vec<(u128, bool, u128)>>>;

struct Tx {
    ticks: Vec<(u64, Vec<(u16, usize)>)>,
    busy: BusyLog,
    /// duplex variant: what comes back over the same gate
    back: Log,
}
/// kind of data messages (ticks use their index, always below)
const DATA: u16 = 500;
impl Module for Tx {
    fn at_sim_start(&mut self, _: usize) {
        for (k, (t, _)) in self.ticks.iter().enumerate() {
            schedule_at(Message::default().kind(k as u16), SimTime::from_duration(Duration::from_nanos(base() + *t)));
        }
    }
    fn handle_message(&mut self, m: Message) {
        if m.header().kind == DATA {
            self.back.lock().unwrap().push((m.header().id, rel_now()));
            return;
        }
        if m.header().kind == 499 {
            return;
        }
        let k = m.header().kind as usize;
        let long = self.ticks[k].1.len() > 8;
        if long {
            // a long burst: something with a later deadline is buffered before it ...
            schedule_in(Message::default().kind(499), Duration::from_secs(5));
        }
        if let Some(ch) = current().gate("out", 0).and_then(|g| g.channel()) {
            self.busy.lock().unwrap().push((rel_now(), ch.is_busy(), ch.transmission_finish_time().as_nanos().saturating_sub(u128::from(base()))));
        }
        for &(id, len) in &self.ticks[k].1 {
            let msg = Message::default().kind(DATA).id(id).with_content(Tok::new(len));
            if let Some(ch) = current().gate("out", 0).and_then(|g| g.channel()) {
                // what the metrics promise for this message is what the reference charges
                let m = ch.metrics();
                let busy = m.calculate_busy(&msg).as_nanos();
                let exp = tx_ns(msg.length(), m.bitrate as u64);
                assert!(busy + 1 >= exp && busy <= exp + 1, "calculate_busy = {busy}ns for {} bytes at {} bit/s, expected {exp}ns", msg.length(), m.bitrate);
                assert_eq!(msg.length(), 64 + len, "length of a message with a {len}-byte body");
            }
            send(msg, "out");
        }
        if long {
            // ... and something with an earlier deadline after it
            schedule_in(Message::default().kind(499), Duration::from_nanos(1));
        }
    }
}
struct Rx {
    log: Log,
    /// duplex variant: the receiver offers the same traffic in the opposite direction
    ticks: Vec<(u64, Vec<(u16, usize)>)>,
}
impl Module for Rx {
    fn at_sim_start(&mut self, _: usize) {
        for (k, (t, _)) in self.ticks.iter().enumerate() {
            schedule_at(Message::default().kind(k as u16), SimTime::from_duration(Duration::from_nanos(base() + *t)));
        }
    }
    fn handle_message(&mut self, m: Message) {
        if m.header().kind == DATA {
            self.log.lock().unwrap().push((m.header().id, rel_now()));
            return;
        }
        for &(id, len) in &self.ticks[m.header().kind as usize].1 {
            send(Message::default().kind(DATA).id(id).with_content(Tok::new(len)), "in");
        }
    }
}
/// middle module of the 2-hop variant: forwards everything
struct Fwd;
impl Module for Fwd {
    fn handle_message(&mut self, m: Message) {
        send(m, "out");
    }
}

#[derive(Clone, Copy, Debug, PartialEq)]
enum Pol {
    Drop,
    Q(Option<usize>),
}

fn tx_ns(len: usize, bitrate: u64) -> u128 {
    if bitrate == 0 {
        return 0;
    }
    let num = (len as u128) * 8 * 1_000_000_000;
    (num + u128::from(bitrate) / 2) / u128::from(bitrate)
}

#[derive(Clone, Debug, PartialEq, Eq, PartialOrd, Ord)]
struct Outcome {
    /// per message: base delivery time (without jitter) or None = dropped
    deliver: Vec<Option<u128>>,
    /// busy intervals [start, end)
    busy: Vec<(u128, u128)>,
}

/// Reference channel; returns every outcome allowed by the statement (same-instant ties between
/// an offer and the channel becoming idle are resolved both ways).
fn reference(bitrate: u64, lat: u128, pol: Pol, offers: &[(u128, u16, usize)]) -> Vec<Outcome> {
    #[derive(Clone)]
    struct St {
        i: usize,
        busy_until: Option<u128>,
        queue: VecDeque<(u16, usize)>,
        acc: usize,
        out: Outcome,
    }
    let n = offers.len();
    let mut results = vec![];
    let mut stack = vec![St { i: 0, busy_until: None, queue: VecDeque::new(), acc: 0, out: Outcome { deliver: vec![None; n], busy: vec![] } }];
    fn start(st: &mut St, now: u128, id: u16, len: usize, bitrate: u64, lat: u128) {
        let tx = tx_ns(len + 64, bitrate);
        st.out.deliver[id as usize] = Some(now + tx + lat);
        if tx > 0 {
            st.busy_until = Some(now + tx);
            st.out.busy.push((now, now + tx));
        }
    }
    fn unbusy(st: &mut St, now: u128, bitrate: u64, lat: u128) {
        st.busy_until = None;
        while st.busy_until.is_none() {
            let Some((id, len)) = st.queue.pop_front() else { break };
            st.acc -= len + 64;
            start(st, now, id, len, bitrate, lat);
        }
    }
    fn offer(st: &mut St, now: u128, id: u16, len: usize, bitrate: u64, lat: u128, pol: Pol) {
        if st.busy_until.is_none() {
            start(st, now, id, len, bitrate, lat);
        } else if let Pol::Q(limit) = pol {
            if st.acc + len + 64 <= limit.unwrap_or(usize::MAX) {
                st.queue.push_back((id, len));
                st.acc += len + 64;
            }
        }
    }
    while let Some(mut st) = stack.pop() {
        loop {
            let next_offer = offers.get(st.i).map(|o| o.0);
            match (next_offer, st.busy_until) {
                (None, None) => {
                    results.push(st.out.clone());
                    break;
                }
                (None, Some(u)) => unbusy(&mut st, u, bitrate, lat),
                (Some(t), None) => {
                    let (_, id, len) = offers[st.i];
                    st.i += 1;
                    offer(&mut st, t, id, len, bitrate, lat, pol);
                }
                (Some(t), Some(u)) => {
                    if t < u {
                        let (_, id, len) = offers[st.i];
                        st.i += 1;
                        offer(&mut st, t, id, len, bitrate, lat, pol);
                    } else if u < t {
                        unbusy(&mut st, u, bitrate, lat);
                    } else {
                        let mut alt = st.clone();
                        unbusy(&mut alt, u, bitrate, lat);
                        stack.push(alt);
                        let (_, id, len) = offers[st.i];
                        st.i += 1;
                        offer(&mut st, t, id, len, bitrate, lat, pol);
                    }
                }
            }
        }
    }
    results.sort();
    results.dedup();
    results
}

#[derive(Clone, Debug)]
struct Case {
    bitrate: u64,
    lat: u64,
    jit: u64,
    pol: Pol,
    /// (offer time ns, id, body length)
    offers: Vec<(u128, u16, usize)>,
    two_hops: bool,
    /// both ends offer the same traffic at the same instants over the one connection
    duplex: bool,
    /// the simulation starts at 20000000.123456789 s instead of zero (all times relative to the start)
    far: bool,
}

fn case_json(c: &Case) -> Value {
    json!({"bitrate": c.bitrate, "latency_ns": c.lat, "jitter_ns": c.jit,
           "policy": match c.pol { Pol::Drop => json!("drop"), Pol::Q(None) => json!("queue_unbounded"), Pol::Q(Some(l)) => json!({"queue_bytes": l}) },
           "offers": c.offers.iter().map(|o| json!([o.0 as u64, o.1, o.2])).collect::<Vec<_>>(), "two_hops": c.two_hops, "duplex": c.duplex, "far_start": c.far})
}
fn case_from(v: &Value) -> Case {
    let p = &v["policy"];
    Case {
        bitrate: v["bitrate"].as_u64().unwrap(),
        lat: v["latency_ns"].as_u64().unwrap(),
        jit: v["jitter_ns"].as_u64().unwrap(),
        pol: if p == "drop" {
            Pol::Drop
        } else if p == "queue_unbounded" {
            Pol::Q(None)
        } else {
            Pol::Q(Some(p["queue_bytes"].as_u64().unwrap() as usize))
        },
        offers: v["offers"].as_array().unwrap().iter().map(|o| (u128::from(o[0].as_u64().unwrap()), o[1].as_u64().unwrap() as u16, o[2].as_u64().unwrap() as usize)).collect(),
        two_hops: v["two_hops"].as_bool().unwrap_or(false),
        duplex: v["duplex"].as_bool().unwrap_or(false),
        far: v["far_start"].as_bool().unwrap_or(false),
    }
}

#[derive(Default)]
struct Facts {
    tie: bool,
    dropped: bool,
    queued: bool,
    sub_ns: bool,
}

fn run_case(c: &Case, facts: &mut Facts) -> Result<u64, String> {
    let c2 = c.clone();
    let m = c.offers.len();
    let allowed = reference(c.bitrate, u128::from(c.lat), c.pol, &c.offers);
    facts.tie = allowed.len() > 1;
    facts.dropped = allowed.iter().any(|o| o.deliver.iter().any(Option::is_none));
    facts.queued = allowed.iter().any(|o| o.busy.len() > 1 && o.busy.windows(2).any(|w| w[0].1 == w[1].0));
    facts.sub_ns = c.offers.iter().any(|o| tx_ns(o.2 + 64, c.bitrate) == 0 && c.bitrate > 0);
    let far = c.far;
    BASE.store(if far { FAR_NS } else { 0 }, SeqCst);
    let res = quiet_catch(move || {
        let c = c2;
        let mut ticks: Vec<(u64, Vec<(u16, usize)>)> = vec![];
        for &(t, id, len) in &c.offers {
            if let Some(last) = ticks.last_mut() {
                if u128::from(last.0) == t {
                    last.1.push((id, len));
                    continue;
                }
            }
            ticks.push((t as u64, vec![(id, len)]));
        }
        LIVE.store(0, SeqCst);
        let log: Log = Default::default();
        let busy: BusyLog = Default::default();
        let back: Log = Default::default();
        let mut sim = Sim::new(());
        let rticks = if c.duplex { ticks.clone() } else { vec![] };
        sim.node("tx", Tx { ticks, busy: busy.clone(), back: back.clone() });
        sim.node("rx", Rx { log: log.clone(), ticks: rticks });
        let metrics = ChannelMetrics::new(
            c.bitrate as usize,
            Duration::from_nanos(c.lat),
            Duration::from_nanos(c.jit),
            match c.pol {
                Pol::Drop => ChannelDropBehaviour::Drop,
                Pol::Q(l) => ChannelDropBehaviour::Queue(l),
            },
        );
        if c.two_hops {
            // second hop: latency-only channel through a forwarding module
            sim.node("mid", Fwd);
            sim.gate("tx", "out").connect(sim.gate("mid", "in"), Some(Channel::new(metrics)));
            let second = ChannelMetrics::new(0, Duration::from_nanos(7), Duration::ZERO, ChannelDropBehaviour::Drop);
            sim.gate("mid", "out").connect(sim.gate("rx", "in"), Some(Channel::new(second)));
        } else {
            sim.gate("tx", "out").connect(sim.gate("rx", "in"), Some(Channel::new(metrics)));
        }
        let r = if far {
            Builder::seeded(1).quiet().cqueue_options(16, Duration::from_secs(1000)).start_time(SimTime::from_duration(Duration::from_nanos(FAR_NS))).build(sim.freeze()).run()
        } else {
            Builder::seeded(1).quiet().cqueue_options(16, Duration::from_micros(50)).build(sim.freeze()).run()
        };
        let ok_run = r.is_ok();
        let live_after_run = LIVE.load(SeqCst);
        drop(r);
        let got = log.lock().unwrap().clone();
        let b = busy.lock().unwrap().clone();
        let bk = back.lock().unwrap().clone();
        (ok_run, live_after_run, got, b, bk)
    });
    let (ok_run, live_after_run, got, busy, back) = res.map_err(|m| format!("panicked: {m}"))?;
    if !ok_run {
        return Err("run returned an error".into());
    }
    let extra = if c.two_hops { 7u128 } else { 0 };
    let mut got_times: Vec<Option<u128>> = vec![None; m];
    for &(id, t) in &got {
        if got_times[id as usize].is_some() {
            return Err(format!("message {id} was delivered twice: deliveries {got:?}"));
        }
        got_times[id as usize] = Some(t);
    }
    let jit = u128::from(c.jit);
    // float -> Duration rounding of size*8/bitrate: 1ns tolerance
    let tol = 1u128;
    let time_ok = |exp: &Outcome| -> bool {
        (0..m).all(|i| match (exp.deliver[i], got_times[i]) {
            (None, None) => true,
            (Some(e), Some(g)) => g + tol >= e + extra && g < e + extra + jit.max(1) + tol,
            _ => false,
        })
    };
    let matching: Vec<&Outcome> = allowed.iter().filter(|o| time_ok(o)).collect();
    if matching.is_empty() {
        return Err(format!(
            "deliveries (id, time) {got:?} match none of the outcomes the rules allow: {:?} (per message: base delivery time, None = dropped)",
            allowed.iter().map(|o| &o.deliver).collect::<Vec<_>>()
        ));
    }
    if c.duplex {
        // the opposite direction is a channel of its own: the same offers have the same outcomes
        let mut bt: Vec<Option<u128>> = vec![None; m];
        for &(id, t) in &back {
            if bt[id as usize].is_some() {
                return Err(format!("opposite direction: message {id} was delivered twice: {back:?}"));
            }
            bt[id as usize] = Some(t);
        }
        let ok = allowed.iter().any(|exp| {
            (0..m).all(|i| match (exp.deliver[i], bt[i]) {
                (None, None) => true,
                (Some(e), Some(g)) => g + tol >= e && g < e + jit.max(1) + tol,
                _ => false,
            })
        });
        if !ok {
            return Err(format!(
                "both ends offer the same traffic at the same instants: the opposite direction delivered (id, time) {back:?}, the rules allow {:?} in either direction (forward deliveries {got:?})",
                allowed.iter().map(|o| &o.deliver).collect::<Vec<_>>()
            ));
        }
    } else if !back.is_empty() {
        return Err(format!("the sender received messages although nothing was sent to it: {back:?}"));
    }
    if c.jit == 0 {
        let ids: Vec<u16> = got.iter().map(|g| g.0).collect();
        if ids.windows(2).any(|w| w[0] > w[1]) {
            return Err(format!("with zero jitter deliveries must preserve offer order, got {got:?}"));
        }
    }
    if live_after_run != 0 {
        return Err(format!("{live_after_run} message bodies are still alive after the run ended (stuck in the channel queue or lost): deliveries {got:?}"));
    }
    // busy flag sampled at the sender ticks
    for &(t, is_busy, fin) in &busy {
        let ok = matching.iter().any(|o| {
            let inside = o.busy.iter().any(|&(s, e)| s < t && t + tol < e);
            let boundary = o.busy.iter().any(|&(s, e)| (t + tol >= s && t <= s + tol) || (t + tol >= e && t <= e + tol));
            if boundary {
                true
            } else if inside {
                is_busy && o.busy.iter().any(|&(s, e)| s < t && t < e && fin + tol >= e && fin <= e + tol)
            } else {
                !is_busy
            }
        });
        if !ok {
            return Err(format!("at {t}ns the channel reports is_busy = {is_busy} (transmission_finish_time {fin}ns); busy intervals by the rules: {:?}", matching.iter().map(|o| &o.busy).collect::<Vec<_>>()));
        }
    }
    Ok(vcheck::fp(&(got_times, c.jit == 0)))
}

fn policies() -> Vec<Pol> {
    vec![Pol::Drop, Pol::Q(None), Pol::Q(Some(0)), Pol::Q(Some(163)), Pol::Q(Some(164)), Pol::Q(Some(164 + 165)), Pol::Q(Some(1000 + 164))]
}

impl Property for C07 {
    fn id(&self) -> &'static str {
        "C07"
    }
    fn rule(&self, tier: Tier) -> String {
        format!(
            "bitrate in {{0, 8 kbit/s, 1 Mbit/s, 2e12 (sub-ns transmission)}} x latency {{0, 1 ms}} x jitter {{0, 1 ms}} x policy {{Drop, Queue(None), Queue(0), Queue(163), Queue(164), Queue(329), Queue(1164)}} \
             x every traffic pattern of 1..={} messages with body sizes {{0, 100, 936}} B (lengths 64, 164 and 1000 B: at 8 kbit/s the last one takes exactly one second) and gaps {{0 = burst in one handler, tx/2, tx, tx+1ns, 3tx}} (tx = transmission time of a 164 B message), plus bursts of 9 / 33 / 40 / 70 messages offered by one handler call that arms a later self message before and an earlier one after the burst, plus, for patterns of up to 2 messages, the same traffic in a simulation that starts at 20000000.123456789 s (times relative to the start must be the same to the nanosecond), plus a 2-hop variant through a forwarding module, plus a duplex variant in which the receiver offers the same traffic at the same instants in the opposite direction over the one connection (each direction must behave as a channel of its own); \
             oracle: reference channel (each message delivered exactly once at start + size*8/bitrate + latency + [0, jitter) or dropped by the stated rule; FIFO start at the idle instant; order preserved with zero jitter; no body alive after the run; is_busy / transmission_finish_time sampled at every sender tick); \
             same-instant ties (offer exactly when the channel goes idle; busy sample exactly at an interval boundary) accept both resolutions; non-trivial = pattern in which a message meets a busy channel",
            tier.pick(4, 5)
        )
    }
    fn assumptions(&self) -> Vec<String> {
        vec![
            "1 ns tolerance on delivery times for the float-to-Duration rounding of size*8/bitrate".into(),
            "channel probes are outside the alphabet".into(),
        ]
    }
    fn required_features(&self, _tier: Tier) -> Vec<&'static str> {
        vec!["message_dropped_by_rule", "message_queued_then_sent_at_idle_instant", "same_instant_tie", "sub_ns_transmission", "two_hop_variant", "byte_limit_edge", "both_directions_at_once", "long_burst_from_one_handler", "simulation_starting_beyond_2^24_seconds"]
    }
    fn explore(&self, ctx: &mut Ctx) {
        // long bursts offered by one handler call (after it armed an earlier self message)
        for br in [0u64, 1_000_000, 2_000_000_000_000] {
            for pol in [Pol::Drop, Pol::Q(None)] {
                for n in [9usize, 33, 40, 70] {
                    if !ctx.mine() {
                        continue;
                    }
                    let offers: Vec<(u128, u16, usize)> = (0..n).map(|i| (1000u128, i as u16, if i % 3 == 0 { 100 } else { 0 })).collect();
                    let c = Case { bitrate: br, lat: 1_000_000, jit: 0, pol, offers, two_hops: false, duplex: false, far: false };
                    let mut f = Facts::default();
                    ctx.begin(|| case_json(&c));
                    ctx.out.evaluations += 1;
                    ctx.hit("long_burst_from_one_handler");
                    match run_case(&c, &mut f) {
                        Ok(o) => ctx.outcome(o),
                        Err(d) => ctx.violation("violation", || case_json(&c), d),
                    }
                }
            }
        }
        let maxm = ctx.tier.pick(4, 5);
        let bitrates = [0u64, 8_000, 1_000_000, 2_000_000_000_000];
        let sizes = [0usize, 100, 936];
        for &br in &bitrates {
            let tx0 = tx_ns(64 + 100, br).max(2) as u64;
            let gaps = [0u64, tx0 / 2, tx0, tx0 + 1, 3 * tx0];
            for lat in [0u64, 1_000_000] {
                for jit in [0u64, 1_000_000] {
                    for pol in policies() {
                        for (two_hops, duplex) in [(false, false), (true, false), (false, true)] {
                            if two_hops && (jit != 0 || lat != 0) {
                                continue;
                            }
                            if duplex && (jit != 0 || br == 0) {
                                continue;
                            }
                            for m in 1..=maxm {
                                let total = sizes.len().pow(m as u32) * gaps.len().pow(m as u32 - 1);
                                for code in 0..total {
                                    if !ctx.mine() {
                                        continue;
                                    }
                                    let mut cc = code;
                                    let mut offers: Vec<(u128, u16, usize)> = vec![];
                                    let mut t = 1000u128;
                                    for i in 0..m {
                                        let s = sizes[cc % sizes.len()];
                                        cc /= sizes.len();
                                        if i > 0 {
                                            let g = gaps[cc % gaps.len()];
                                            cc /= gaps.len();
                                            t += u128::from(g);
                                        }
                                        offers.push((t, i as u16, s));
                                    }
                                    let c = Case { bitrate: br, lat, jit, pol, offers, two_hops, duplex, far: false };
                                    if m <= 2 && !two_hops {
                                        // the same traffic in a simulation that starts far from zero
                                        let cf = Case { far: true, ..c.clone() };
                                        ctx.begin(|| case_json(&cf));
                                        ctx.out.evaluations += 1;
                                        ctx.hit("simulation_starting_beyond_2^24_seconds");
                                        if let Err(d) = run_case(&cf, &mut Facts::default()) {
                                            ctx.violation("violation", || case_json(&cf), d);
                                        }
                                    }
                                    if duplex {
                                        ctx.hit("both_directions_at_once");
                                    }
                                    let mut f = Facts::default();
                                    ctx.begin(|| case_json(&c));
                                    let r = run_case(&c, &mut f);
                                    ctx.out.evaluations += 1;
                                    ctx.out.traces += 1;
                                    ctx.out.states += 1;
                                    ctx.out.transitions += m as u64;
                                    if f.tie {
                                        ctx.hit("same_instant_tie");
                                    }
                                    if f.dropped {
                                        ctx.hit("message_dropped_by_rule");
                                    }
                                    if f.queued {
                                        ctx.hit("message_queued_then_sent_at_idle_instant");
                                    }
                                    if f.sub_ns {
                                        ctx.hit("sub_ns_transmission");
                                    }
                                    if two_hops {
                                        ctx.hit("two_hop_variant");
                                    }
                                    if matches!(pol, Pol::Q(Some(163 | 164))) && f.dropped {
                                        ctx.hit("byte_limit_edge");
                                    }
                                    if f.dropped || f.queued {
                                        ctx.out.nontrivial += 1;
                                    }
                                    match r {
                                        Ok(o) => {
                                            ctx.outcome(o);
                                            if m == 3 && f.queued && f.dropped {
                                                ctx.sample(|| case_json(&c));
                                            }
                                        }
                                        Err(d) => ctx.violation("violation", || case_json(&c), d),
                                    }
                                }
                            }
                        }
                    }
                }
            }
        }
    }
    fn replay(&self, case: &Value) -> Result<(), String> {
        run_case(&case_from(case), &mut Facts::default()).map(|_| ())
    }
}

fn main() {
    run_property(&C07);
}
