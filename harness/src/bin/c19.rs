//! C19 — topology views mirror the gate graph and answer graph queries correctly.
//! Complete enumeration of module multigraphs (parallel chains, self chains, chains routed
//! through transit gates, 1 / 2 / 16 hops) built on a real `Sim`; every root for `spanned`,
//! every source for `dijkstra`, every node subset for `filter_nodes`, single-edge removal
//! for `filter_edges`; compared with a reference adjacency list built from the wiring.

use des::prelude::*;
use std::collections::{BTreeSet, VecDeque};
use vcheck::{json, quiet_catch, run_property, Ctx, Property, Tier, Value};

struct C19;

#[derive(Default)]
struct M;
impl Module for M {}

const NAMES: [&str; 5] = ["s", "a", "ab", "c", "d"];

/// directed reference edge: (from, to, start gate path, end gate path)
type E = (usize, usize, String, String);
type ESet = BTreeSet<(String, String, String, String)>;

fn bfs(n: usize, adj: &[Vec<usize>], s: usize) -> Vec<Option<usize>> {
    let mut d = vec![None; n];
    d[s] = Some(0);
    let mut q = VecDeque::from([s]);
    while let Some(u) = q.pop_front() {
        for &v in &adj[u] {
            if d[v].is_none() {
                d[v] = Some(d[u].unwrap() + 1);
                q.push_back(v);
            }
        }
    }
    d
}

#[derive(Clone, Debug)]
struct Graph {
    n: usize,
    /// multiplicity per pair (i <= j) in lexicographic order
    mult: Vec<usize>,
    /// 0 = all chains direct; 1 + t = first chain goes through one transit gate on module t;
    /// 100 + t = first chain goes through 15 transit gates (16 hops) starting on module t
    transit: usize,
}

fn pairs(n: usize) -> Vec<(usize, usize)> {
    let mut p = vec![];
    for i in 0..n {
        for j in i..n {
            p.push((i, j));
        }
    }
    p
}

fn collect(t: &Topology<(), ()>) -> (Vec<String>, ESet, usize, bool) {
    let nodes: Vec<String> = t.nodes().iter().map(|n| n.module().path().to_string()).collect();
    let mut cnt = 0;
    let mut label_ok = true;
    let es = t
        .edges()
        .map(|e| {
            cnt += 1;
            if e.to.gate().owner().path() != e.to.module().path() || e.from.gate().owner().path() != e.from.module().path() {
                label_ok = false;
            }
            (e.from.module().path().to_string(), e.to.module().path().to_string(), e.from.gate().path().to_string(), e.to.gate().path().to_string())
        })
        .collect();
    (nodes, es, cnt, label_ok)
}

#[derive(Default)]
struct Facts {
    multi_frontier: bool,
    has_transit: bool,
    disconnected: bool,
    multi_edge: bool,
    dijkstra_choice: bool,
    one_directional: bool,
    queries: u64,
}

fn check_graph(g: &Graph, facts: &mut Facts) -> Result<u64, String> {
    let g = g.clone();
    let mut f = Facts::default();
    let r = quiet_catch(|| check_inner(&g, &mut f));
    *facts = f;
    match r {
        Err(m) => Err(format!("panicked: {m}")),
        Ok(x) => x,
    }
}

fn check_inner(g: &Graph, facts: &mut Facts) -> Result<u64, String> {
    let n = g.n;
    let prs = pairs(n);
    let mut sim = Sim::new(());
    for name in NAMES.iter().take(n) {
        sim.node(*name, M);
    }
    let mut edges_ref: Vec<E> = vec![];
    let mut first = true;
    if sim.globals().topology().edges().count() != 0 {
        return Err("global view of an unwired simulation has edges".into());
    }
    for (pi, &(i, j)) in prs.iter().enumerate() {
        for k in 0..g.mult[pi] {
            let gi = format!("g{j}x{k}a");
            let gj = format!("g{i}x{k}b");
            let a = sim.gate(NAMES[i], &gi);
            let b = sim.gate(NAMES[j], &gj);
            if first && g.transit > 0 {
                let (hops, t0) = if g.transit >= 100 { (15, g.transit - 100) } else { (1, g.transit - 1) };
                let mut prev = a.clone();
                for h in 0..hops {
                    let tg = sim.gate(NAMES[(t0 + h) % n], &format!("transit{h}"));
                    prev.connect(tg.clone(), None);
                    prev = tg;
                }
                prev.connect(b.clone(), None);
                facts.has_transit = true;
            } else {
                a.clone().connect(b.clone(), None);
            }
            first = false;
            edges_ref.push((i, j, format!("{}.{}", NAMES[i], gi), format!("{}.{}", NAMES[j], gj)));
            edges_ref.push((j, i, format!("{}.{}", NAMES[j], gj), format!("{}.{}", NAMES[i], gi)));
            if k > 0 {
                facts.multi_edge = true;
            }
            // the view extracted while the wiring grows mirrors the wiring so far
            facts.queries += 1;
            let (_, es, cnt, _) = collect(&sim.globals().topology());
            let so_far: ESet = edges_ref.iter().map(|e| (NAMES[e.0].to_string(), NAMES[e.1].to_string(), e.2.clone(), e.3.clone())).collect();
            if es != so_far || cnt != edges_ref.len() {
                return Err(format!("graph {}: global view extracted after connecting {} chains has {cnt} edges {es:?}, the wiring so far has {:?}", case_json(g), edges_ref.len() / 2, so_far));
            }
        }
    }
    let mut adj = vec![vec![]; n];
    for e in &edges_ref {
        adj[e.0].push(e.1);
    }
    let refset = |nodes: &BTreeSet<usize>| -> ESet {
        edges_ref
            .iter()
            .filter(|e| nodes.contains(&e.0) && nodes.contains(&e.1))
            .map(|e| (NAMES[e.0].to_string(), NAMES[e.1].to_string(), e.2.clone(), e.3.clone()))
            .collect()
    };
    let desc = format!("graph {}", case_json(g));
    // ---- global view
    let topo = sim.globals().topology();
    let (nodes, es, cnt, label_ok) = collect(&topo);
    let all: BTreeSet<usize> = (0..n).collect();
    let exp_nodes: Vec<String> = (0..n).map(|i| NAMES[i].to_string()).collect();
    facts.queries += 1;
    let sorted = |v: &[String]| -> Vec<String> {
        let mut v = v.to_vec();
        v.sort();
        v
    };
    if sorted(&nodes) != sorted(&exp_nodes) {
        return Err(format!("{desc}: global view has nodes {nodes:?}, modules are {exp_nodes:?}"));
    }
    if es != refset(&all) || cnt != edges_ref.len() || !label_ok {
        return Err(format!("{desc}: global view has {cnt} edges {es:?}, the wiring has {} chain endpoints {:?}", edges_ref.len(), refset(&all)));
    }
    // ---- per-node iterators and derived views of the same graph
    for s in 0..n {
        facts.queries += 2;
        let exp: ESet = refset(&all).into_iter().filter(|e| e.0 == NAMES[s]).collect();
        let mut cnt2 = 0;
        let got: ESet = topo
            .edges_for(NAMES[s])
            .map(|e| {
                cnt2 += 1;
                (e.from.module().path().to_string(), e.to.module().path().to_string(), e.from.gate().path().to_string(), e.to.gate().path().to_string())
            })
            .collect();
        if got != exp || cnt2 != exp.len() {
            return Err(format!("{desc}: edges_for({}) yields {cnt2} edges {got:?}, the edges leaving that module are {exp:?}", NAMES[s]));
        }
        let node = topo.nodes().iter().find(|nd| nd.module().path().as_str() == NAMES[s]).unwrap();
        if topo.edges_for_node(node).count() != exp.len() {
            return Err(format!("{desc}: edges_for_node({}) yields {} edges, expected {}", NAMES[s], topo.edges_for_node(node).count(), exp.len()));
        }
    }
    if topo.edges_for("no-such-module").count() != 0 {
        return Err(format!("{desc}: edges_for of an unknown module yields edges"));
    }
    {
        facts.queries += 3;
        let deg = topo.with_node_connectivity_attachment();
        for nd in deg.nodes() {
            let i = NAMES.iter().position(|x| *x == nd.module().path().as_str()).unwrap();
            let exp = edges_ref.iter().filter(|e| e.0 == i && e.1 != i).count();
            if nd.degree != exp {
                return Err(format!("{desc}: node connectivity attachment reports degree {} for {}, it has {exp} edges to other modules", nd.degree, NAMES[i]));
            }
        }
        if collect(&topo.with_node_attachments(|_| ())).1 != es {
            return Err(format!("{desc}: with_node_attachments changed the edges"));
        }
        let cost = topo.with_edge_cost_attachment();
        let mut m = 0;
        for e in cost.edges() {
            m += 1;
            if e.attachment.cost != 0.0 || !e.attachment.alive {
                return Err(format!("{desc}: edge cost attachment {:?} on a channel-less chain between active modules", e.attachment));
            }
        }
        if m != edges_ref.len() {
            return Err(format!("{desc}: with_edge_cost_attachment has {m} edges, the view has {}", edges_ref.len()));
        }
        let dot = topo.as_dot();
        if dot.matches(" -> ").count() != edges_ref.len() || dot.matches("[shape=box]").count() != n {
            return Err(format!("{desc}: as_dot() lists {} edges and {} nodes, the view has {} and {n}", dot.matches(" -> ").count(), dot.matches("[shape=box]").count(), edges_ref.len()));
        }
    }
    // ---- connected / bidirectional
    let strongly = (0..n).all(|s| bfs(n, &adj, s).iter().all(Option::is_some));
    facts.disconnected = !strongly;
    facts.queries += 2;
    if topo.connected() != strongly {
        return Err(format!("{desc}: connected() = {}, reference says {strongly}", topo.connected()));
    }
    if !topo.bidirectional() {
        return Err(format!("{desc}: bidirectional() = false although every chain has both endpoints in the view"));
    }
    for s in 0..n {
        let dist = bfs(n, &adj, s);
        let reach: BTreeSet<usize> = (0..n).filter(|&v| dist[v].is_some()).collect();
        // ---- spanned
        facts.queries += 1;
        let sp = Topology::spanned(sim.get(&NAMES[s].into()).unwrap());
        let (snodes, ses, scnt, slabel) = collect(&sp);
        let sn: BTreeSet<String> = snodes.iter().cloned().collect();
        let exp_sn: BTreeSet<String> = reach.iter().map(|&i| NAMES[i].to_string()).collect();
        if adj[s].iter().filter(|&&v| v != s).collect::<BTreeSet<_>>().len() > 1 {
            facts.multi_frontier = true;
        }
        if sn != exp_sn || snodes.len() != exp_sn.len() {
            return Err(format!("{desc}: spanned({}) contains modules {snodes:?}, reachable are {exp_sn:?}", NAMES[s]));
        }
        if ses != refset(&reach) || scnt != refset(&reach).len() || !slabel {
            return Err(format!("{desc}: spanned({}) has edges {ses:?} (gate owners match nodes: {slabel}), the wiring among reachable modules is {:?}", NAMES[s], refset(&reach)));
        }
        // ---- dijkstra
        facts.queries += 1;
        let dj = topo.dijkstra(NAMES[s]);
        let keys: BTreeSet<String> = dj.keys().map(ToString::to_string).collect();
        let exp_keys: BTreeSet<String> = reach.iter().filter(|&&v| v != s).map(|&i| NAMES[i].to_string()).collect();
        if keys != exp_keys {
            return Err(format!("{desc}: dijkstra({}) answers for {keys:?}, reachable are {exp_keys:?}", NAMES[s]));
        }
        for (k, e) in &dj {
            let v = NAMES.iter().position(|x| *x == k.as_str()).unwrap();
            let w = NAMES.iter().position(|x| *x == e.to.module().path().as_str()).unwrap();
            if e.from.module().path().as_str() != NAMES[s] {
                return Err(format!("{desc}: dijkstra({})[{k}] is an edge leaving {}", NAMES[s], e.from.module().path()));
            }
            let key = (NAMES[s].to_string(), NAMES[w].to_string(), e.from.gate().path().to_string(), e.to.gate().path().to_string());
            if !refset(&all).contains(&key) {
                return Err(format!("{desc}: dijkstra({})[{k}] = {key:?} is not an edge of the gate graph", NAMES[s]));
            }
            let dw = bfs(n, &adj, w);
            if dw[v].map(|x| x + 1) != dist[v] {
                return Err(format!(
                    "{desc}: dijkstra({})[{k}] starts with the edge to {} which needs {:?} hops, the minimum is {:?}",
                    NAMES[s],
                    NAMES[w],
                    dw[v].map(|x| x + 1),
                    dist[v]
                ));
            }
            if dist[v].unwrap() >= 2 && adj[s].iter().collect::<BTreeSet<_>>().len() > 1 {
                facts.dijkstra_choice = true;
            }
        }
    }
    // ---- filter_nodes: all subsets
    for mask in 0..(1u32 << n) {
        facts.queries += 1;
        let keep: BTreeSet<usize> = (0..n).filter(|i| mask & (1 << i) != 0).collect();
        let mut t = sim.globals().topology();
        t.filter_nodes(|node| keep.contains(&NAMES.iter().position(|x| *x == node.module().path().as_str()).unwrap()));
        let (fnodes, fes, fcnt, flabel) = collect(&t);
        let exp_nodes: Vec<String> = keep.iter().map(|&i| NAMES[i].to_string()).collect();
        if sorted(&fnodes) != sorted(&exp_nodes) || fes != refset(&keep) || fcnt != refset(&keep).len() || !flabel {
            return Err(format!("{desc}: filter_nodes keeping {exp_nodes:?} gives nodes {fnodes:?} and edges {fes:?}, expected edges {:?}", refset(&keep)));
        }
        // derived queries on the filtered view
        let mut fadj = vec![vec![]; n];
        for e in edges_ref.iter().filter(|e| keep.contains(&e.0) && keep.contains(&e.1)) {
            fadj[e.0].push(e.1);
        }
        let fconn = keep.iter().all(|&s| {
            let d = bfs(n, &fadj, s);
            keep.iter().all(|&v| d[v].is_some())
        });
        if t.connected() != fconn {
            return Err(format!("{desc}: after filter_nodes keeping {exp_nodes:?} connected() = {}, reference {fconn}", t.connected()));
        }
    }
    // ---- filter_edges: remove each single directed edge (by its start gate)
    let simple = g.mult.iter().enumerate().all(|(pi, m)| *m <= 1 && (prs[pi].0 != prs[pi].1 || *m == 0));
    for victim in &edges_ref {
        facts.queries += 1;
        let mut t = sim.globals().topology();
        t.filter_edges(|e| e.from.gate().path().to_string() != victim.2);
        let (fnodes, fes, fcnt, _) = collect(&t);
        let mut exp = refset(&all);
        exp.remove(&(NAMES[victim.0].to_string(), NAMES[victim.1].to_string(), victim.2.clone(), victim.3.clone()));
        if fnodes.len() != n || fes != exp || fcnt != exp.len() {
            return Err(format!("{desc}: filter_edges removing the edge starting at {} gives {fcnt} edges {fes:?}, expected {exp:?}", victim.2));
        }
        if simple && t.bidirectional() {
            return Err(format!("{desc}: after removing only the edge {} -> {} the view still reports bidirectional()", victim.2, victim.3));
        }
    }
    // ---- filter_edges: one-directional views (only edges towards higher / lower module index)
    for keep_up in [true, false] {
        facts.queries += 1;
        let idx = |p: &str| NAMES.iter().position(|x| *x == p).unwrap();
        let mut t = sim.globals().topology();
        t.filter_edges(|e| {
            let (a, b) = (idx(e.from.module().path().as_str()), idx(e.to.module().path().as_str()));
            a == b || ((a < b) == keep_up)
        });
        let kept: Vec<&E> = edges_ref.iter().filter(|e| e.0 == e.1 || ((e.0 < e.1) == keep_up)).collect();
        let (_, fes, fcnt, _) = collect(&t);
        let exp: ESet = kept.iter().map(|e| (NAMES[e.0].to_string(), NAMES[e.1].to_string(), e.2.clone(), e.3.clone())).collect();
        if fes != exp || fcnt != exp.len() {
            return Err(format!("{desc}: filter_edges keeping only edges towards {} module indices gives {fes:?}, expected {exp:?}", if keep_up { "higher" } else { "lower" }));
        }
        let mut dadj = vec![vec![]; n];
        for e in &kept {
            dadj[e.0].push(e.1);
        }
        let dconn = (0..n).all(|s| bfs(n, &dadj, s).iter().all(Option::is_some));
        if t.connected() != dconn {
            return Err(format!("{desc}: one-directional view (edges towards {} indices only): connected() = {}, reference {dconn}", if keep_up { "higher" } else { "lower" }, t.connected()));
        }
        let has_cross = kept.iter().any(|e| e.0 != e.1);
        if has_cross {
            facts.one_directional = true;
            if t.bidirectional() {
                return Err(format!("{desc}: one-directional view (edges towards {} indices only) reports bidirectional()", if keep_up { "higher" } else { "lower" }));
            }
        }
    }
    Ok(vcheck::fp(&(es, n)))
}

fn case_json(g: &Graph) -> Value {
    json!({"modules": g.n, "chains_per_pair": pairs(g.n).iter().zip(&g.mult).filter(|(_, m)| **m > 0).map(|(p, m)| json!([NAMES[p.0], NAMES[p.1], m])).collect::<Vec<_>>(), "mult": g.mult, "transit": g.transit})
}

impl Property for C19 {
    fn id(&self) -> &'static str {
        "C19"
    }
    fn rule(&self, tier: Tier) -> String {
        format!(
            "every multigraph on 1..={} modules (names s, a, ab, c, d) with 0..=2 parallel gate chains per module pair (0..=1 from {} modules on) and optional self chains, x first chain routed directly / through one transit gate on each module / through 15 transit gates (16 hops); \
             per graph: global view (also re-extracted after every single chain is connected: it must mirror the wiring so far), edges_for / edges_for_node per module, node-connectivity and edge-cost attachments, as_dot counts, connected, bidirectional, spanned(root) for every root, dijkstra(src) for every source, filter_nodes for every subset (+ connected on the result), filter_edges removing every single directed edge (+ bidirectional on simple graphs) and keeping only the edges towards higher / lower module indices (+ connected and bidirectional on the one-directional view); \
             oracle: reference adjacency list from the declared wiring, BFS distances; non-trivial = graph with a transit-routed chain, parallel chains, or a root with more than one neighbour",
            tier.pick(4, 5),
            tier.pick(4, 5)
        )
    }
    fn assumptions(&self) -> Vec<String> {
        vec!["chains longer than the supported 16 hops and channels on hops (irrelevant to topology extraction) are outside the alphabet".into()]
    }
    fn required_features(&self, _tier: Tier) -> Vec<&'static str> {
        vec!["root_with_several_frontier_modules", "chain_through_transit_gates", "disconnected_graph", "parallel_chains", "dijkstra_with_alternative_first_hops", "one_directional_view"]
    }
    fn explore(&self, ctx: &mut Ctx) {
        let maxn = ctx.tier.pick(4, 5);
        for n in 1..=maxn {
            let prs = pairs(n);
            let mx = if n <= 3 || (n == 4 && ctx.tier == Tier::Thorough) { 2 } else { 1 };
            let radix: Vec<usize> = prs.iter().map(|&(i, j)| if i == j { 2 } else { mx + 1 }).collect();
            let total: usize = radix.iter().product();
            // n = 5: self chains only on the first module to keep the space at 2^11 * transit variants
            for code in 0..total {
                let mut c = code;
                let mut mult = vec![];
                for r in &radix {
                    mult.push(c % r);
                    c /= r;
                }
                if n == 5 && prs.iter().zip(&mult).any(|(p, m)| p.0 == p.1 && p.0 > 0 && *m > 0) {
                    continue;
                }
                let has_edge = mult.iter().any(|m| *m > 0);
                let mut transits = vec![0];
                if has_edge {
                    transits.extend((0..n).map(|t| 1 + t));
                    transits.push(100);
                    if n > 1 {
                        transits.push(101);
                    }
                }
                for transit in transits {
                    if !ctx.mine() {
                        continue;
                    }
                    let g = Graph { n, mult: mult.clone(), transit };
                    let mut f = Facts::default();
                    ctx.begin(|| case_json(&g));
                    let r = check_graph(&g, &mut f);
                    ctx.out.evaluations += 1;
                    ctx.out.states += 1;
                    ctx.out.traces += f.queries;
                    ctx.out.transitions += f.queries;
                    if f.multi_frontier {
                        ctx.hit("root_with_several_frontier_modules");
                    }
                    if f.has_transit {
                        ctx.hit("chain_through_transit_gates");
                    }
                    if f.disconnected {
                        ctx.hit("disconnected_graph");
                    }
                    if f.multi_edge {
                        ctx.hit("parallel_chains");
                    }
                    if f.dijkstra_choice {
                        ctx.hit("dijkstra_with_alternative_first_hops");
                    }
                    if f.one_directional {
                        ctx.hit("one_directional_view");
                    }
                    if f.multi_frontier || f.has_transit || f.multi_edge {
                        ctx.out.nontrivial += 1;
                    }
                    match r {
                        Ok(o) => {
                            ctx.outcome(o);
                            if n == 4 && f.dijkstra_choice && f.has_transit {
                                ctx.sample(|| case_json(&g));
                            }
                        }
                        Err(d) => ctx.violation("violation", || case_json(&g), d),
                    }
                }
            }
        }
    }
    fn replay(&self, case: &Value) -> Result<(), String> {
        let g = Graph {
            n: case["modules"].as_u64().unwrap() as usize,
            mult: case["mult"].as_array().unwrap().iter().map(|m| m.as_u64().unwrap() as usize).collect(),
            transit: case["transit"].as_u64().unwrap() as usize,
        };
        check_graph(&g, &mut Facts::default()).map(|_| ())
    }
}

fn main() {
    run_property(&C19);
}
