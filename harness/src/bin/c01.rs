//! C01 — future event set: time-ordered, exactly-once, cancellable dispatch.
//! Explicit-state BFS over add/fetch/cancel histories of the real `CQueue`, canonical-state
//! dedup, reference list oracle, drain of every new state through the public API.

use vcheck::cqlab::{self, bfs};
use vcheck::{run_property, Ctx, Property, Tier, Value};

struct C01;

/// Bucket boundaries far from zero (simulated time beyond 2^24 s, where 1 ns is below the
/// resolution of an f64 second count): one queue walks over `count` consecutive boundaries
/// b = K*t; around each, events at b-1ns, b+1ns and b+t/2 are added (in that order of
/// insertion: latest first) and must come back in time order with their own times.
fn far_boundaries(n: usize, t_ns: u64, count: u64) -> Result<u64, String> {
    use des_cqueue::CQueue;
    use std::time::Duration;
    let dur = |ns: u128| Duration::new((ns / 1_000_000_000) as u64, (ns % 1_000_000_000) as u32);
    vcheck::quiet_catch(move || -> Result<u64, String> {
        let mut q: CQueue<u32> = CQueue::new(n, Duration::from_nanos(t_ns));
        let t = u128::from(t_ns);
        let first = ((1u128 << 24) * 1_000_000_000).div_ceil(t) + 1;
        let mut id = 0u32;
        for k in first..first + u128::from(count) {
            let b = k * t;
            let times = [b + t / 2, b + 1, b - 1];
            for &x in &times {
                q.add(dur(x), id);
                id += 1;
            }
            let mut exp = [(id - 1, b - 1), (id - 2, b + 1), (id - 3, b + t / 2)].to_vec();
            exp.sort_by_key(|e| e.1);
            for (eid, et) in exp {
                if q.is_empty() {
                    return Err(format!("(n={n}, t={t_ns}ns) boundary {k}: queue empty although event {eid} at {et}ns is pending"));
                }
                let (gid, gt) = q.fetch_next();
                if gid != eid || gt.as_nanos() != et {
                    return Err(format!(
                        "(n={n}, t={t_ns}ns) around bucket boundary {k}*t = {b}ns: fetched event {gid} at {}ns, the earliest pending event is {eid} at {et}ns",
                        gt.as_nanos()
                    ));
                }
            }
        }
        if !q.is_empty() {
            return Err(format!("(n={n}, t={t_ns}ns): {} events left after everything was fetched", q.len()));
        }
        Ok(u64::from(id))
    })
    .map_err(|m| format!("panicked: {m}"))?
}

pub fn configs(tier: Tier) -> Vec<(usize, u64, usize)> {
    // (n buckets, bucket width ns, depth)
    match tier {
        Tier::Quick => vec![(1, 1, 6), (1, 3, 6), (2, 1, 6), (2, 3, 6), (3, 2, 6), (4, 5, 6), (2, 1_000_000_000, 5), (1028, 2_500_000, 4)],
        Tier::Thorough => {
            let mut v = vec![];
            for n in [1usize, 2, 3, 4, 7] {
                for t in [1u64, 2, 3, 5] {
                    v.push((n, t, 7));
                }
            }
            v.push((2, 1_000_000_000, 7));
            v.push((1028, 2_500_000, 5));
            // deepest level on the configurations with the richest collision structure
            for c in [(1, 1, 8), (2, 3, 8), (3, 2, 8), (4, 5, 8)] {
                v.push(c);
            }
            v
        }
    }
}

impl Property for C01 {
    fn id(&self) -> &'static str {
        "C01"
    }
    fn rule(&self, tier: Tier) -> String {
        format!(
            "explicit-state BFS over all histories of Add(delta)/Fetch/Cancel(j) on the real CQueue<u32>, delta in {{0,1,t-1,t,t+1,Y-1,Y,Y+1,3Y+2}}, \
             configurations (n,t,depth) = {:?}; every transition re-executes the complete history on a fresh queue and compares every step with a reference list \
             (len, fetched id/time, minimality, dead-cancel is a no-op), the queue is additionally drained through fetch_next after every history (not only the first one reaching a state); \
             states are deduplicated per worker by a canonical form of the implementation snapshot (ids renamed to ranks) plus the reference's pending list (merged states are not expanded again); plus scripted histories that wrap the 64-slot ring buffer of the zero-delay bucket before cancelling in it; plus, on 6 configurations with bucket widths from 0.1 s to 99.9 s, one queue each that walks over 3000 (thorough 60000) consecutive bucket boundaries beyond 2^24 s of simulated time with events 1 ns before, 1 ns after and half a bucket after each boundary; independently of that key, 4 configurations are explored to depth 5 (thorough 6) without merging any states; \
             distinct_nontrivial = distinct canonical states with at least one pending event (per worker; work below depth 2 is partitioned over workers, \
             so a state reachable under two partitions is counted by both)",
            configs(tier)
        )
    }
    fn assumptions(&self) -> Vec<String> {
        vec![
            "time values are limited to the delta alphabet around bucket/year boundaries; event-id wrap-around (2^64 adds) is out of bound".into(),
            "canonical-state merging is sound because CQueue compares ids only for equality (cross-checked against a no-dedup run in the thorough tier)".into(),
            "structural snapshot facts are diagnostics only; the verdict comes from values returned by add/fetch_next/cancel/len/is_empty".into(),
        ]
    }
    fn required_features(&self, _tier: Tier) -> Vec<&'static str> {
        vec![
            "add_at_current_time",
            "fetch_with_tie",
            "fetch_skipping_later_year_event",
            "cancel_live_in_zero_bucket",
            "cancel_live_bucketed_at_current_time",
            "cancel_live_future",
            "cancel_dead_handle",
            "exploration_without_state_merging",
            "cancel_in_a_wrapped_zero_delay_ring",
            "bucket_boundaries_beyond_2^24_seconds",
        ]
    }
    fn crash_is_violation(&self) -> bool {
        true
    }
    fn explore(&self, ctx: &mut Ctx) {
        for (n, t, depth) in configs(ctx.tier) {
            bfs(ctx, n, t, depth, false, true, true, "violation");
        }
        // long histories through the zero-delay bucket: its ring buffer (64 slots) is wrapped when the cancels happen
        for (n, t) in [(1usize, 1u64), (4, 5)] {
            for victim in [60usize, 63, 64, 66, 69] {
                if !ctx.mine() {
                    continue;
                }
                use vcheck::cqlab::Op;
                let mut h: Vec<Op> = vec![];
                h.extend(std::iter::repeat_n(Op::Add(0), 60));
                h.extend(std::iter::repeat_n(Op::Fetch, 58));
                h.extend(std::iter::repeat_n(Op::Add(0), 10));
                h.push(Op::Cancel(victim));
                h.push(Op::Cancel(61));
                h.push(Op::Add(t));
                let case = vcheck::cqlab::case_json(n, t, &h, false);
                ctx.begin(|| case.clone());
                ctx.out.evaluations += 1;
                ctx.hit("cancel_in_a_wrapped_zero_delay_ring");
                if let Err(d) = vcheck::cqlab::replay_case(&case) {
                    ctx.violation("violation", || case.clone(), format!("(n={n}, t={t}ns) 60 zero-delay adds, 58 fetches, 10 more adds, cancels: {d}"));
                }
            }
        }
        // bucket boundaries beyond 2^24 s of simulated time
        let count = ctx.tier.pick(3000u64, 60_000);
        for (i, (n, t)) in [(8usize, 99_900_000_000u64), (4, 1_100_000_000), (16, 100_000_000), (3, 4_900_000_000), (5, 300_000_000), (2, 1_000_000_000)].iter().enumerate() {
            if !ctx.mine_key(i as u64) {
                continue;
            }
            let case = vcheck::json!({"far_boundaries": {"n": n, "t_ns": t, "count": count}});
            ctx.begin(|| case.clone());
            ctx.out.evaluations += 1;
            ctx.hit("bucket_boundaries_beyond_2^24_seconds");
            match far_boundaries(*n, *t, count) {
                Ok(events) => {
                    ctx.out.transitions += 2 * events;
                    ctx.out.traces += 1;
                }
                Err(d) => ctx.violation("violation", || case.clone(), d),
            }
        }
        // every history up to a smaller depth without merging states: independent of what the
        // canonical key can see of the implementation
        for (n, t) in [(1usize, 1u64), (2, 3), (4, 5), (3, 2)] {
            ctx.hit("exploration_without_state_merging");
            bfs(ctx, n, t, ctx.tier.pick(5, 6), false, false, true, "violation");
        }
        if ctx.tier == Tier::Thorough {
            // canon cross-check: dedup and no-dedup exploration must reach the same canonical keys
            for (i, (n, t)) in [(1usize, 1u64), (1, 3), (2, 1), (2, 3), (3, 2), (4, 5), (7, 2), (2, 1_000_000_000)].iter().enumerate() {
                if !ctx.mine_key(i as u64) {
                    continue;
                }
                let mut scratch = Ctx::new(ctx.tier, 0, 1, 0);
                let a = bfs(&mut scratch, *n, *t, 5, false, true, false, "violation");
                let b = bfs(&mut scratch, *n, *t, 5, false, false, false, "violation");
                if a != b {
                    ctx.out.capped.push(format!("MACHINERY: canonical-state cross-check failed on ({n},{t}): {} vs {} keys", a.len(), b.len()));
                } else {
                    ctx.hit("canon_crosscheck_configs_ok");
                }
            }
        }
    }
    fn replay(&self, case: &Value) -> Result<(), String> {
        if let Some(f) = case.get("far_boundaries") {
            return far_boundaries(f["n"].as_u64().unwrap() as usize, f["t_ns"].as_u64().unwrap(), f["count"].as_u64().unwrap()).map(|_| ());
        }
        cqlab::replay_case(case)
    }
}

fn main() {
    run_property(&C01);
}
