//! C04 — seeded simulations are reproducible.
//! Grid of generated models (topology x channel jitter x behaviour flags) x seeds; every
//! (model, seed) is executed twice in one process (with other simulations in between) and in
//! two different worker processes; the complete observable traces must be identical, and
//! different seeds must give different traces.

use des::net::ndl::{Def, Registry};
use des::prelude::*;
use des::time::sleep;
use std::collections::BTreeMap;
use std::sync::{Arc, Mutex};
use vcheck::{json, quiet_catch, run_property, Ctx, Property, Tier, Value};

struct C04;

type Log = Arc<Mutex<Vec<String>>>;
fn lg(l: &Log, s: String) {
    l.lock().unwrap().push(format!("{}|{}", SimTime::now().as_nanos(), s));
}

#[derive(Clone, Copy, Debug, PartialEq)]
struct Model {
    /// 0 pair, 1 ring of 3 whose links are connected with one shared channel instance, 2 star of 3 around a hub, 3 NDL-built network with a cluster
    topo: u8,
    jitter: bool,
    restart: bool,
    extra_tasks: bool,
    /// module b panics at its third message: the run ends with an error (used between the two
    /// executions of every case, never as a compared case itself)
    boom: bool,
}

struct Node {
    log: Log,
    n: u32,
    tx: Option<tokio::sync::mpsc::Sender<u16>>,
    model: Model,
    inc: u32,
}
impl Module for Node {
    fn reset(&mut self) {
        self.n = 0;
        self.tx = None;
    }
    fn at_sim_start(&mut self, _: usize) {
        let me = current().path().to_string();
        self.inc += 1;
        lg(&self.log, format!("{me} start#{} r={}", self.inc, des::runtime::random::<u32>()));
        let (tx, mut rx) = tokio::sync::mpsc::channel::<u16>(32);
        self.tx = Some(tx);
        let l = self.log.clone();
        let me2 = me.clone();
        tokio::spawn(async move {
            for round in 0..6 {
                // unbiased select over equal deadlines and a receive: the branch comes from tokio's seeded rng
                let b = tokio::select! {
                    () = sleep(Duration::from_millis(10)) => 0,
                    () = sleep(Duration::from_millis(10)) => 1,
                    () = sleep(Duration::from_millis(10)) => 2,
                    v = rx.recv() => 10 + i32::from(v.unwrap_or(0)),
                };
                let d: u64 = des::runtime::random::<u64>() % 7;
                lg(&l, format!("{me2} task round={round} branch={b} d={d}"));
                sleep(Duration::from_millis(d)).await;
            }
        });
        if self.model.extra_tasks {
            let l = self.log.clone();
            let me3 = me.clone();
            tokio::spawn(async move {
                let mut iv = des::time::interval(Duration::from_millis(7));
                for k in 0..5 {
                    let t = iv.tick().await;
                    let x: f64 = des::runtime::sample(rand::distr::StandardUniform);
                    lg(&l, format!("{me3} tick{k} at={} x={x:.9}", t.as_nanos()));
                    if x < 0.3 {
                        sleep(Duration::from_millis(9)).await;
                    }
                }
            });
        }
        schedule_in(Message::default().kind(1), Duration::from_millis(des::runtime::random::<u64>() % 5));
        if self.model.restart && self.inc == 1 && me.ends_with('b') {
            schedule_in(Message::default().kind(7), Duration::from_millis(20 + des::runtime::random::<u64>() % 10));
        }
    }
    fn at_sim_end(&mut self) -> Result<(), RuntimeError> {
        // last words: sent when nothing is processed any more; they must not surface anywhere
        let me = current().path().to_string();
        lg(&self.log, format!("{me} end r={}", des::runtime::random::<u32>()));
        for g in current().gates() {
            if g.kind() == des::net::gate::GateKind::Endpoint {
                send(Message::default().kind(9), g);
            }
        }
        schedule_in(Message::default().kind(9), Duration::from_millis(1));
        Ok(())
    }
    fn handle_message(&mut self, m: Message) {
        let me = current().path().to_string();
        self.n += 1;
        lg(&self.log, format!("{me} msg kind={} id={} n={}", m.header().kind, m.header().id, self.n));
        assert!(!(self.model.boom && me == "b" && self.n == 3), "module b gives up");
        if m.header().kind == 7 {
            current().shutdow_and_restart_in(Duration::from_millis(5 + des::runtime::random::<u64>() % 10));
            return;
        }
        if m.header().kind == 1 && self.n < 12 {
            for g in current().gates() {
                if g.kind() == des::net::gate::GateKind::Endpoint && des::runtime::random::<u8>() % 2 == 0 {
                    send(Message::default().kind(2).id(self.n as u16), g);
                }
            }
            schedule_in(Message::default().kind(1), Duration::from_millis(1 + des::runtime::random::<u64>() % 5));
        }
        if m.header().kind == 2 {
            if let Some(tx) = &self.tx {
                let _ = tx.try_send(m.header().id);
            }
        }
    }
}

const NDL_DOC: &str = "entry: Main\nmodules:\n  Main:\n    submodules:\n      a: Leaf\n      b: Leaf\n      c: Leaf\n      d[3]: Leaf\n    connections:\n    - peers:\n      - a/p[0]\n      - b/p[0]\n      link: L\n    - peers:\n      - b/p[1]\n      - c/p[0]\n      link: L\n    - peers:\n      - d/p[0]\n      - d/p[1]\n      link: L\n    - peers:\n      - a/q\n      - c/q\n      link: L\n    - peers:\n      - a/r\n      - b/r\n      link: L\n    - peers:\n      - c/r\n      - d[0]/s\n      link: L\n    - peers:\n      - b/s\n      - d[1]/q\n      link: L\n  Leaf:\n    gates:\n    - p[2]\n    - q\n    - r\n    - s\nlinks:\n  L:\n    latency: 0.002\n    jitter: JIT\n    bitrate: 1000000\n    queuesize: \"1000\"\n";

/// when set, the builder chain also calls the setters that do not concern the model
/// (calendar parameters, an explicit start time of zero), in another order
static OTHER_CHAIN: std::sync::atomic::AtomicBool = std::sync::atomic::AtomicBool::new(false);

fn run(model: Model, seed: u64) -> Result<String, String> {
    let other_chain = OTHER_CHAIN.load(std::sync::atomic::Ordering::SeqCst);
    quiet_catch(move || {
        let log: Log = Default::default();
        let mut sim = Sim::new(());
        let mk = |log: &Log| Node { log: log.clone(), n: 0, tx: None, model, inc: 0 };
        let jit = if model.jitter { Duration::from_millis(1) } else { Duration::ZERO };
        let ch = || Some(Channel::new(ChannelMetrics::new(1_000_000, Duration::from_millis(2), jit, ChannelDropBehaviour::Queue(None))));
        match model.topo {
            0 => {
                for n in ["a", "b"] {
                    sim.node(n, mk(&log));
                }
                sim.gate("a", "ab").connect(sim.gate("b", "ba"), ch());
            }
            1 => {
                for n in ["a", "b", "c"] {
                    sim.node(n, mk(&log));
                }
                // one channel instance handed to all three connects (the caller's instance ends up
                // on one direction of every link, by the roles in the call)
                let shared = ch();
                sim.gate("a", "ab").connect(sim.gate("b", "ba"), shared.clone());
                sim.gate("b", "bc").connect(sim.gate("c", "cb"), shared.clone());
                sim.gate("c", "ca").connect(sim.gate("a", "ac"), shared);
            }
            2 => {
                for n in ["hub", "hub.a", "hub.b", "c"] {
                    sim.node(n, mk(&log));
                }
                for (i, n) in ["hub.a", "hub.b", "c"].iter().enumerate() {
                    let hg = sim.gates("hub", "port", 3)[i].clone();
                    hg.connect(sim.gate(*n, "up"), ch());
                }
            }
            _ => {
                let doc = NDL_DOC.replace("JIT", if model.jitter { "0.001" } else { "0.0" });
                let def: Def = serde_yml::from_str(&doc).unwrap();
                let l = log.clone();
                let l2 = log.clone();
                let reg = Registry::new()
                    .symbol_fn("Leaf", move |_| Node { log: l.clone(), n: 0, tx: None, model, inc: 0 })
                    .symbol_fn("Main", move |_| Node { log: l2.clone(), n: 0, tx: None, model, inc: 0 });
                sim.nodes_from_ndl(&def, reg).unwrap();
            }
        }
        // the order in which a spanned view lists the modules reachable from the first node is part of the history
        if let Some(first) = sim.nodes().next() {
            let sp = des::net::topology::Topology::spanned(sim.get(&first).unwrap());
            let order: Vec<String> = sp.nodes().iter().map(|n| n.module().path().to_string()).collect();
            let edges: Vec<String> = sp.edges().map(|e| format!("{}>{}", e.from.gate().path(), e.to.gate().path())).collect();
            // (no time stamp: the clock is only set when the runtime is built)
            log.lock().unwrap().push(format!("-|spanned nodes={order:?} edges={edges:?}"));
        }
        let b = if other_chain {
            Builder::seeded(seed).max_time(1.0.into()).start_time(SimTime::ZERO).quiet().cqueue_options(64, Duration::from_millis(3))
        } else {
            Builder::seeded(seed).quiet().max_time(1.0.into())
        };
        let r = b.build(sim.freeze()).run();
        let tail = match r {
            Ok((_, t, p)) => format!("ok end={} events={}", t.as_nanos(), p.event_count),
            Err(e) => format!("err {e}"),
        };
        let mut out = log.lock().unwrap().join("\n");
        out.push('\n');
        out.push_str(&tail);
        out
    })
}

fn models() -> Vec<Model> {
    let mut v = vec![];
    for topo in 0..4u8 {
        for jitter in [false, true] {
            for restart in [false, true] {
                for extra_tasks in [false, true] {
                    v.push(Model { topo, jitter, restart, extra_tasks, boom: false });
                }
            }
        }
    }
    v
}
fn seeds(ctx_seed: u64, tier: Tier) -> Vec<u64> {
    let mut s = vec![0u64, 1, 123, 99_999, ctx_seed.wrapping_mul(2_654_435_761) % 1_000_003 + 7];
    if tier == Tier::Thorough {
        s.extend([2, 3, 5, 8, 13, 21, 34, 55, 89, 144, 233, 377]);
    }
    s.sort_unstable();
    s.dedup();
    s
}

fn model_json(m: &Model, seed: u64) -> Value {
    let names = ["pair", "ring3", "star3-with-submodules", "ndl-cluster"];
    json!({"topology": names[m.topo as usize], "topo": m.topo, "jitter": m.jitter, "restart": m.restart, "extra_tasks": m.extra_tasks, "seed": seed})
}

fn first_diff(a: &str, b: &str) -> String {
    for (i, (x, y)) in a.lines().zip(b.lines()).enumerate() {
        if x != y {
            return format!("first difference at trace line {i}: '{x}' vs '{y}'");
        }
    }
    format!("traces have {} and {} lines", a.lines().count(), b.lines().count())
}

impl Property for C04 {
    fn id(&self) -> &'static str {
        "C04"
    }
    fn level(&self) -> &'static str {
        "exploration"
    }
    fn rule(&self, tier: Tier) -> String {
        format!(
            "grid: topology {{pair, ring of 3, star of 3 with submodules and a gate cluster, NDL-built network of 7 with a module cluster and four gate groups per module type}} x channel jitter {{0, 1 ms}} x module restart at a random-drawn time on/off x extra interval/sample tasks on/off = 32 models, x seeds {:?}; \
             every module draws random() in handlers and tasks, sends last messages from at_sim_end (which must not surface in any later simulation), runs an unbiased 4-way select! over equal deadlines and a receive, and sends over random subsets of its gates; each (model, seed) is run by two different worker processes, in each of them twice (the second time after other simulations ran in that process, among them runs that ended with an error; every second of these re-runs configures its builder through a longer chain of setters - calendar parameters, an explicit start time of zero, in another order - which must not change anything); \
             the complete traces (time, module path, callback, message kind/id, drawn values, select branch, tick times, final time, event count, result) must be identical in all four executions; per model the traces of different seeds must differ; \
             plus one forced two-thread schedule (a Builder::build in another thread waits for the simulation lock while a simulation is paused between two steps: clock and random() history of the paused simulation must equal the run without the visitor); \
             a case is one (model, seed); non-trivial = every case (all draw randomness)",
            seeds(0, tier)
        )
    }
    fn assumptions(&self) -> Vec<String> {
        vec![
            "exhaustive over the stated grid of models and seeds, not over all seeds or all models".into(),
            "raw ModuleIds and addresses are not part of the observable history and are not in the trace".into(),
        ]
    }
    fn required_features(&self, _tier: Tier) -> Vec<&'static str> {
        vec!["same_process_rerun", "ndl_model", "jitter_model", "restart_model", "seeds_distinguish_traces", "cross_process_comparison", "builder_waiting_in_another_thread", "failed_run_in_between", "rerun_with_other_builder_setters"]
    }
    fn explore(&self, ctx: &mut Ctx) {
        if ctx.is_first_shard() {
            // the one interleaving another thread can add: a builder that waits for the simulation lock
            ctx.out.evaluations += 1;
            ctx.hit("builder_waiting_in_another_thread");
            match quiet_catch(vcheck::threadlab::waiting_builder_probe) {
                Ok(Ok(o)) => ctx.outcome(o),
                Ok(Err(d)) => ctx.violation("violation", || json!({"probe": "waiting_builder"}), d),
                Err(m) => ctx.violation("violation", || json!({"probe": "waiting_builder"}), format!("panicked: {m}")),
            }
        }
        let ms = models();
        let ss = seeds(ctx.seed, ctx.tier);
        // first pass: T1 of every owned case; second pass (after everything else ran): T2
        let mut mine: Vec<(usize, u64)> = vec![];
        let mut idx = 0u64;
        for (mi, _) in ms.iter().enumerate() {
            for &s in &ss {
                // every case is owned by two different workers
                if idx % ctx.nshards == ctx.shard || (idx + 1) % ctx.nshards == ctx.shard || ctx.nshards == 1 {
                    mine.push((mi, s));
                }
                idx += 1;
            }
        }
        let mut first: BTreeMap<(usize, u64), String> = BTreeMap::new();
        for &(mi, s) in &mine {
            ctx.begin(|| model_json(&ms[mi], s));
            ctx.out.evaluations += 1;
            ctx.out.traces += 1;
            ctx.out.states += 1;
            match run(ms[mi], s) {
                Ok(t) => {
                    ctx.out.transitions += t.lines().count() as u64;
                    first.insert((mi, s), t);
                }
                Err(m) => ctx.violation("violation", || model_json(&ms[mi], s), format!("panicked: {m}")),
            }
        }
        // in between: simulations that end with an error (a module panics) over jittered links
        for topo in [0u8, 1, 3] {
            let r = run(Model { topo, jitter: true, restart: false, extra_tasks: true, boom: true }, 7);
            if !r.is_ok_and(|t| t.contains("\nerr ")) {
                ctx.out.capped.push("MACHINERY: the deliberately failing simulation did not end with an error".into());
            }
            ctx.hit("failed_run_in_between");
        }
        for (k, &(mi, s)) in mine.iter().rev().enumerate() {
            let Some(t1) = first.get(&(mi, s)) else { continue };
            // every second re-run configures the builder through a longer chain of setters
            OTHER_CHAIN.store(k % 2 == 1, std::sync::atomic::Ordering::SeqCst);
            if k % 2 == 1 {
                ctx.hit("rerun_with_other_builder_setters");
            }
            ctx.begin(|| model_json(&ms[mi], s));
            ctx.out.evaluations += 1;
            ctx.out.traces += 1;
            ctx.hit("same_process_rerun");
            match run(ms[mi], s) {
                Ok(t2) => {
                    if *t1 != t2 {
                        ctx.violation("violation", || model_json(&ms[mi], s), format!("two executions in one process differ: {}", first_diff(t1, &t2)));
                    }
                }
                Err(m) => ctx.violation("violation", || model_json(&ms[mi], s), format!("panicked: {m}")),
            }
            OTHER_CHAIN.store(false, std::sync::atomic::Ordering::SeqCst);
            let fp = vcheck::fp(t1);
            ctx.outcome(fp);
            ctx.out.extra.insert(format!("trace|{mi}|{s}|{fp:016x}"), json!(1));
            ctx.out.nontrivial += 1;
            let m = ms[mi];
            if m.topo == 3 {
                ctx.hit("ndl_model");
            }
            if m.jitter {
                ctx.hit("jitter_model");
            }
            if m.restart {
                ctx.hit("restart_model");
            }
            if mi == 13 && s == 123 {
                let head: Vec<&str> = t1.lines().take(6).collect();
                ctx.sample(|| json!({"case": model_json(&m, s), "trace_lines": t1.lines().count(), "trace_head": head}));
            }
        }
        // seeds must matter: per model, the traces of different seeds differ
        let mut by_model: BTreeMap<usize, Vec<u64>> = BTreeMap::new();
        for ((mi, _), t) in &first {
            by_model.entry(*mi).or_default().push(vcheck::fp(t));
        }
        for (mi, mut fps) in by_model {
            let n = fps.len();
            fps.sort_unstable();
            fps.dedup();
            if n >= 2 {
                if fps.len() == n {
                    ctx.hit("seeds_distinguish_traces");
                } else {
                    ctx.out.capped.push(format!("MACHINERY: model {mi}: {n} seeds gave only {} distinct traces - the seed is not consumed, the comparison would be vacuous", fps.len()));
                }
            }
        }
    }
    fn post(&self, _tier: Tier, merged: &mut vcheck::driver::Out) {
        let mut by_case: BTreeMap<String, Vec<(String, u64)>> = BTreeMap::new();
        for (k, v) in &merged.extra {
            if let Some(rest) = k.strip_prefix("trace|") {
                let (case, fp) = rest.rsplit_once('|').unwrap();
                by_case.entry(case.to_string()).or_default().push((fp.to_string(), v.as_u64().unwrap_or(0)));
            }
        }
        let mut two_proc = 0u64;
        let ms = models();
        for (case, fps) in &by_case {
            let procs: u64 = fps.iter().map(|f| f.1).sum();
            if procs >= 2 {
                two_proc += 1;
            }
            if fps.len() > 1 {
                let (mi, s) = case.split_once('|').unwrap();
                let (mi, s): (usize, u64) = (mi.parse().unwrap(), s.parse().unwrap());
                *merged.viol_counts.entry("violation".into()).or_insert(0) += 1;
                merged.viols.push(vcheck::driver::Viol {
                    class: "violation".into(),
                    case: model_json(&ms[mi], s),
                    detail: format!("executions in different processes produced different traces (fingerprints {fps:?})"),
                    shard: None,
                });
            }
        }
        merged.extra.retain(|k, _| !k.starts_with("trace|"));
        merged.extra.insert("cases_compared_across_processes".into(), json!(two_proc));
        if two_proc > 0 {
            *merged.features.entry("cross_process_comparison".into()).or_insert(0) += two_proc;
        }
    }
    fn replay(&self, case: &Value) -> Result<(), String> {
        if case.get("probe").and_then(Value::as_str) == Some("waiting_builder") {
            return quiet_catch(vcheck::threadlab::waiting_builder_probe).map_err(|m| format!("panicked: {m}"))?.map(|_| ());
        }
        let m = Model { topo: case["topo"].as_u64().unwrap() as u8, jitter: case["jitter"].as_bool().unwrap(), restart: case["restart"].as_bool().unwrap(), extra_tasks: case["extra_tasks"].as_bool().unwrap(), boom: false };
        let s = case["seed"].as_u64().unwrap();
        let t1 = run(m, s).map_err(|e| format!("panicked: {e}"))?;
        let _ = run(Model { topo: (m.topo + 1) % 4, ..m }, s + 1);
        let _ = run(Model { topo: 0, jitter: true, restart: false, extra_tasks: true, boom: true }, 7);
        let t2 = run(m, s).map_err(|e| format!("panicked: {e}"))?;
        if t1 != t2 {
            return Err(format!("two executions in one process differ: {}", first_diff(&t1, &t2)));
        }
        OTHER_CHAIN.store(true, std::sync::atomic::Ordering::SeqCst);
        let t3 = run(m, s);
        OTHER_CHAIN.store(false, std::sync::atomic::Ordering::SeqCst);
        let t3 = t3.map_err(|e| format!("panicked: {e}"))?;
        if t1 != t3 {
            return Err(format!("two executions in one process differ (the second builder also sets calendar parameters and a start time of zero): {}", first_diff(&t1, &t3)));
        }
        // a second process
        let exe = std::env::current_exe().map_err(|e| e.to_string())?;
        let out = std::process::Command::new(exe).arg("--trace-fp").arg(case.to_string()).output().map_err(|e| e.to_string())?;
        let other = String::from_utf8_lossy(&out.stdout).trim().to_string();
        if other != format!("{:016x}", vcheck::fp(&t1)) {
            return Err(format!("a second process produced a different trace (fingerprint {other} vs {:016x})", vcheck::fp(&t1)));
        }
        Ok(())
    }
}

fn main() {
    let args: Vec<String> = std::env::args().collect();
    if args.len() == 3 && args[1] == "--trace-fp" {
        let case: Value = vcheck::serde_json::from_str(&args[2]).unwrap();
        let m = Model { topo: case["topo"].as_u64().unwrap() as u8, jitter: case["jitter"].as_bool().unwrap(), restart: case["restart"].as_bool().unwrap(), extra_tasks: case["extra_tasks"].as_bool().unwrap(), boom: false };
        let t = run(m, case["seed"].as_u64().unwrap()).unwrap_or_default();
        println!("{:016x}", vcheck::fp(&t));
        return;
    }
    run_property(&C04);
}
