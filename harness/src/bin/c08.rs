//! C08 — a message sent into a gate chain reaches the module at the far end.
//! Complete enumeration of chain constructions: k gates, every order and orientation of the
//! connect calls, every placement of (distinct-latency) channels, several gates on one
//! module / cluster gates, both send directions, immediate / delayed / injected sends;
//! structural queries (kind, peers, mirror image, idempotence, full-gate rejection).

use des::net::gate::GateKind;
use des::prelude::*;
use std::sync::{Arc, Mutex};
use vcheck::{json, quiet_catch, run_property, Ctx, Property, Tier, Value};

struct C08;

type Log = Arc<Mutex<Vec<String>>>;

struct Node {
    name: String,
    log: Log,
    /// (gate name, gate pos, delay in ns or None for immediate `send`)
    send_on_start: Option<(String, usize, Option<u64>)>,
    /// send a second message right behind the first
    twice: bool,
    /// (gate name, pos): a received message with id 7 is sent back as the very same object (id 9)
    echo_on: Option<(String, usize)>,
}
impl Module for Node {
    fn at_sim_start(&mut self, _: usize) {
        if let Some((g, pos, d)) = &self.send_on_start {
            for id in if self.twice { vec![7u16, 8] } else { vec![7] } {
                let msg = Message::default().id(id);
                match d {
                    None => send(msg, (g.as_str(), *pos)),
                    Some(d) => send_in(msg, (g.as_str(), *pos), Duration::from_nanos(*d)),
                }
            }
        }
    }
    fn handle_message(&mut self, mut m: Message) {
        {
            let h = m.header();
            self.log.lock().unwrap().push(format!(
                "recv:{}:t={}:last={}:snd={}:rcv_ok={}",
                self.name,
                SimTime::now().as_nanos(),
                h.last_gate.as_ref().map(|g| g.path().to_string()).unwrap_or_default(),
                h.sender_module_id.0,
                h.receiver_module_id == current().id()
            ));
        }
        if m.header().id == 7 {
            if let Some((g, pos)) = &self.echo_on {
                m.header_mut().id = 9;
                send(m, (g.as_str(), *pos));
            }
        }
    }
}

fn perms(n: usize) -> Vec<Vec<usize>> {
    if n == 0 {
        return vec![vec![]];
    }
    let mut out = vec![];
    for p in perms(n - 1) {
        for i in 0..=p.len() {
            let mut q = p.clone();
            q.insert(i, n - 1);
            out.push(q);
        }
    }
    out
}

#[derive(Clone, Copy, Debug, PartialEq)]
enum SendKind {
    Send,
    SendIn(u64),
    Inject(u64),
}

#[derive(Clone, Debug)]
struct Case {
    k: usize,
    /// layout of gates over modules: 0 = one module per gate, 1 = odd inner gates share the
    /// next module (two gates of one module in the chain), 2 = end gates are cluster elements
    layout: u8,
    perm: Vec<usize>,
    orient: u32,
    chans: u32,
    dir: u8,
    send: SendKind,
    /// re-issue every connect (same and reversed orientation) after the chain is complete
    reconnect: bool,
    /// both ends send at the same time and the channels have a bitrate (64 ms per 64-byte
    /// message and channel hop): the two directions must not get in each other's way
    duplex: bool,
    /// two messages in the same direction, right behind each other, over channels with a bitrate
    /// and an unbounded queue: the second waits in the first busy channel and follows 64 ms behind
    burst: bool,
    /// the far end sends the received message back as the very same object
    echo: bool,
    /// the simulation starts beyond 2^24 s of simulated time (1 ns is below the resolution of an f64 second count there)
    far: bool,
}
const FAR_NS: u64 = 20_000_000_123_456_789;

fn case_json(c: &Case) -> Value {
    json!({"k": c.k, "layout": c.layout, "connect_order": c.perm, "orientation_bits": c.orient, "channel_bits": c.chans, "direction": c.dir,
           "send": match c.send { SendKind::Send => json!("send"), SendKind::SendIn(d) => json!({"send_in_ns": d}), SendKind::Inject(t) => json!({"add_message_onto_at_ns": t}) },
           "reconnect": c.reconnect, "duplex": c.duplex, "burst": c.burst, "echo": c.echo, "far_start": c.far})
}
fn case_from(v: &Value) -> Case {
    let s = &v["send"];
    Case {
        k: v["k"].as_u64().unwrap() as usize,
        layout: v["layout"].as_u64().unwrap() as u8,
        perm: v["connect_order"].as_array().unwrap().iter().map(|x| x.as_u64().unwrap() as usize).collect(),
        orient: v["orientation_bits"].as_u64().unwrap() as u32,
        chans: v["channel_bits"].as_u64().unwrap() as u32,
        dir: v["direction"].as_u64().unwrap() as u8,
        send: if s.is_string() {
            SendKind::Send
        } else if let Some(d) = s.get("send_in_ns") {
            SendKind::SendIn(d.as_u64().unwrap())
        } else {
            SendKind::Inject(s["add_message_onto_at_ns"].as_u64().unwrap())
        },
        reconnect: v["reconnect"].as_bool().unwrap(),
        duplex: v["duplex"].as_bool().unwrap_or(false),
        burst: v["burst"].as_bool().unwrap_or(false),
        echo: v["echo"].as_bool().unwrap_or(false),
        far: v["far_start"].as_bool().unwrap_or(false),
    }
}

fn run_case(c: &Case) -> Result<u64, String> {
    let c = c.clone();
    quiet_catch(move || run_inner(&c)).map_err(|m| format!("panicked: {m}"))?
}

fn run_inner(c: &Case) -> Result<u64, String> {
    let k = c.k;
    let edges = k - 1;
    let log: Log = Default::default();
    let mut sim = Sim::new(());
    // gate i is owned by module owner(i)
    let owner = |i: usize| if c.layout == 1 && k > 3 && i % 2 == 1 && i + 1 < k - 1 { i + 1 } else { i };
    let (src, dst) = if c.dir == 0 { (0, k - 1) } else { (k - 1, 0) };
    let cluster = c.layout == 2;
    for i in 0..k {
        if owner(i) == i {
            let is_src = i == src || (c.duplex && i == dst);
            sim.node(
                format!("m{i}"),
                Node {
                    name: format!("m{i}"),
                    log: log.clone(),
                    send_on_start: match (is_src, c.send) {
                        (true, SendKind::Send) => Some(("g".into(), if cluster { 1 } else { 0 }, None)),
                        (true, SendKind::SendIn(d)) => Some(("g".into(), if cluster { 1 } else { 0 }, Some(d))),
                        _ => None,
                    },
                    twice: c.burst && i == src,
                    echo_on: (c.echo && i == dst).then(|| ("g".to_string(), if cluster { 1 } else { 0 })),
                },
            );
        }
    }
    let gates: Vec<GateRef> = (0..k)
        .map(|i| {
            if owner(i) != i {
                sim.gate(format!("m{}", owner(i)), "g2")
            } else if cluster && (i == 0 || i == k - 1) {
                sim.gates(format!("m{i}"), "g", 3)[1].clone()
            } else {
                sim.gate(format!("m{i}"), "g")
            }
        })
        .collect();
    for g in &gates {
        if g.kind() != GateKind::Standalone {
            return Err(format!("gate {} reports kind {:?} before any connect", g.path(), g.kind()));
        }
    }
    let lat = |e: usize| 1u64 << e; // ms, pairwise distinct sums
    let mk_chan = |e: usize| {
        if c.chans & (1 << e) != 0 {
            Some(Channel::new(ChannelMetrics::new(if c.duplex || c.burst { 8000 } else { 0 }, Duration::from_millis(lat(e)), Duration::ZERO, if c.burst { ChannelDropBehaviour::Queue(None) } else { ChannelDropBehaviour::Drop })))
        } else {
            None
        }
    };
    for &e in &c.perm {
        if c.orient & (1 << e) != 0 {
            gates[e].clone().connect(gates[e + 1].clone(), mk_chan(e));
        } else {
            gates[e + 1].clone().connect(gates[e].clone(), mk_chan(e));
        }
    }
    if c.reconnect {
        // connecting is symmetric and idempotent: issuing every connect again, in both
        // orientations, must change nothing
        for e in 0..edges {
            gates[e].clone().connect(gates[e + 1].clone(), mk_chan(e));
            gates[e + 1].clone().connect(gates[e].clone(), None);
            // ... also when the repeated call names another channel than the hop was declared with
            let other = || Some(Channel::new(ChannelMetrics::new(0, Duration::from_millis(700), Duration::ZERO, ChannelDropBehaviour::Drop)));
            if e % 2 == 0 {
                gates[e].clone().connect(gates[e + 1].clone(), other());
            } else {
                gates[e + 1].clone().connect(gates[e].clone(), other());
            }
        }
    }
    // ---- structure
    let all: Vec<String> = gates.iter().map(|g| g.path().to_string()).collect();
    for (i, g) in gates.iter().enumerate() {
        let exp = if i == 0 || i == k - 1 { GateKind::Endpoint } else { GateKind::Transit };
        if g.kind() != exp {
            return Err(format!("gate #{i} {} of the chain {all:?} reports kind {:?}, expected {exp:?}", g.path(), g.kind()));
        }
    }
    let fwd: Vec<String> = gates[0].path_iter().ok_or("no path_iter on the first endpoint")?.map(|c| c.endpoint.path().to_string()).collect();
    let mut bwd: Vec<String> = gates[k - 1].path_iter().ok_or("no path_iter on the last endpoint")?.map(|c| c.endpoint.path().to_string()).collect();
    bwd.reverse();
    // every connection of the walk knows the gate it came from
    for (i, con) in gates[0].path_iter().unwrap().enumerate() {
        if con.prev_hop().map(|g| g.path().to_string()) != Some(all[i].clone()) {
            return Err(format!("chain {all:?}: hop #{i} of the walk from the first end reports prev_hop() = {:?}, it leaves {}", con.prev_hop().map(|g| g.path()), all[i]));
        }
    }
    for (i, con) in gates[k - 1].path_iter().unwrap().enumerate() {
        if con.prev_hop().map(|g| g.path().to_string()) != Some(all[k - 1 - i].clone()) {
            return Err(format!("chain {all:?}: hop #{i} of the walk from the last end reports prev_hop() = {:?}, it leaves {}", con.prev_hop().map(|g| g.path()), all[k - 1 - i]));
        }
    }
    if fwd != all[1..] || bwd != all[..k - 1] {
        return Err(format!("chain {all:?}: walked from the first end {fwd:?}, from the other end (reversed) {bwd:?} - not the mirror image of each other / of the chain"));
    }
    if gates[0].path_end().map(|g| g.path().to_string()) != Some(all[k - 1].clone()) || gates[k - 1].path_end().map(|g| g.path().to_string()) != Some(all[0].clone()) {
        return Err(format!("chain {all:?}: path_end() of the two ends are {:?} / {:?}", gates[0].path_end().map(|g| g.path()), gates[k - 1].path_end().map(|g| g.path())));
    }
    if gates[0].next_gate().map(|g| g.path().to_string()) != Some(all[1].clone()) {
        return Err(format!("chain {all:?}: next_gate() of the first end is {:?}", gates[0].next_gate().map(|g| g.path())));
    }
    // channels sit exactly on the chosen hops (walk from the first end)
    let chan_fwd: Vec<bool> = gates[0].path_iter().unwrap().map(|c| c.channel().is_some()).collect();
    let chan_exp: Vec<bool> = (0..edges).map(|e| c.chans & (1 << e) != 0).collect();
    if chan_fwd != chan_exp {
        return Err(format!("chain {all:?}: hops with a channel {chan_fwd:?}, declared {chan_exp:?}"));
    }
    // ---- dynamics
    let sender_id = sim.get(&format!("m{}", owner(src)).as_str().into()).unwrap().id().0;
    let sim_id_of_dst = sim.get(&format!("m{}", owner(dst)).as_str().into()).unwrap().id().0;
    let far = if c.far { FAR_NS } else { 0 };
    let mut rt = if c.far {
        Builder::seeded(1).quiet().cqueue_options(8, Duration::from_secs(100_000)).start_time(SimTime::from_duration(Duration::from_nanos(far))).build(sim.freeze())
    } else {
        Builder::seeded(1).quiet().cqueue_options(8, Duration::from_millis(3)).build(sim.freeze())
    };
    let t0 = match c.send {
        SendKind::Send => far,
        SendKind::SendIn(d) => far + d,
        SendKind::Inject(t) => {
            let t = far + t;
            // a message that is leaving the connection ending at the source gate
            rt.add_message_onto(gates[src].clone(), Message::default().id(7), SimTime::from_duration(Duration::from_nanos(t)));
            t
        }
    };
    let r = rt.run();
    if let Err(e) = &r {
        return Err(format!("run returned an error: {e:?}"));
    }
    let per_hop_tx = if c.duplex || c.burst { 64 } else { 0 };
    let total: u64 = (0..edges).filter(|e| c.chans & (1 << e) != 0).map(|e| lat(e) + per_hop_tx).sum();
    let exp_t = u128::from(t0) + u128::from(total) * 1_000_000;
    let mut recvs: Vec<String> = log.lock().unwrap().clone();
    if c.duplex {
        // the message travelling the other way
        let other_id = sim_id_of_dst;
        let exp_back = format!("recv:m{}:t={exp_t}:last={}:snd={other_id}:rcv_ok=true", owner(src), all[src]);
        let Some(pos) = recvs.iter().position(|r| *r == exp_back) else {
            return Err(format!("chain {all:?} (channels with a bitrate on hops {chan_exp:?}), both ends sending at once: expected '{exp_back}' among {recvs:?}"));
        };
        recvs.remove(pos);
    }
    if c.echo {
        // the echo: the same message object travels back over the same chain
        let back = format!("recv:m{}:t={}:last={}:snd={sim_id_of_dst}:rcv_ok=true", owner(src), exp_t + u128::from(total) * 1_000_000, all[src]);
        let Some(pos) = recvs.iter().position(|r| *r == back) else {
            return Err(format!("chain {all:?} (channels on hops {chan_exp:?}): the far end sends the received message back as it is; expected '{back}' among {recvs:?}"));
        };
        recvs.remove(pos);
    }
    if c.burst {
        // the follower: same route, one transmission time later
        let exp2 = format!("recv:m{}:t={}:last={}:snd={sender_id}:rcv_ok=true", owner(dst), exp_t + 64_000_000, all[dst]);
        let Some(pos) = recvs.iter().position(|r| *r == exp2) else {
            return Err(format!("chain {all:?} (queueing channels with a bitrate on hops {chan_exp:?}), two messages sent right behind each other: expected the second as '{exp2}' among {recvs:?}"));
        };
        recvs.remove(pos);
    }
    let exp_snd = if matches!(c.send, SendKind::Inject(_)) { None } else { Some(sender_id) };
    let exp_prefix = format!("recv:m{}:t={exp_t}:last={}:snd=", owner(dst), all[dst]);
    if recvs.len() != 1 {
        return Err(format!("chain {all:?}: message sent from {} was handled {} times: {recvs:?}", all[src], recvs.len()));
    }
    let got = &recvs[0];
    let ok = got.starts_with(&exp_prefix) && got.ends_with(":rcv_ok=true") && exp_snd.is_none_or(|s| got.contains(&format!(":snd={s}:")));
    if !ok {
        return Err(format!("chain {all:?} (channels on hops {chan_exp:?}): expected '{exp_prefix}{}:rcv_ok=true', got '{got}'", exp_snd.map_or("*".to_string(), |s| s.to_string())));
    }
    Ok(vcheck::fp(&(exp_t, owner(dst))))
}

/// A gate that already has two peers rejects a third one (separate throw-away simulation:
/// the rejection is a panic inside `connect`, after which that gate is not used any more).
fn third_peer_rejected(orient: bool) -> Result<(), String> {
    let mut verdict: Result<(), String> = Err("third-peer probe did not run".into());
    let v = &mut verdict;
    let _ = quiet_catch(move || {
        let mut sim = Sim::new(());
        for n in ["a", "b", "c", "d"] {
            sim.node(n, Node { name: n.into(), log: Default::default(), send_on_start: None, twice: false, echo_on: None });
        }
        let (a, b, c, d) = (sim.gate("a", "g"), sim.gate("b", "g"), sim.gate("c", "g"), sim.gate("d", "g"));
        a.connect(b.clone(), None);
        c.connect(b.clone(), None);
        let r = std::panic::catch_unwind(std::panic::AssertUnwindSafe(|| if orient { b.connect(d, None) } else { d.connect(b, None) }));
        *v = if r.is_err() { Ok(()) } else { Err("a gate that already has two peers accepted a third one".into()) };
    });
    verdict
}

impl Property for C08 {
    fn id(&self) -> &'static str {
        "C08"
    }
    fn rule(&self, tier: Tier) -> String {
        format!(
            "every chain of k = 2..={} gates x layout {{one module per gate, two chain gates on one module, cluster-element end gates}} x all (k-1)! connect orders x 2^(k-1) orientations x 2^(k-1) channel placements (latencies 1,2,4,8 ms so that the arrival time identifies the hops) \
             x both directions x {{send, send_in(0.5 s), add_message_onto}} x {{plain, every connect re-issued in both orientations, duplex: both ends send at the same instant over channels that have a bitrate (the two directions must not get in each other's way), burst: two messages right behind each other over queueing channels with a bitrate (the second waits in the busy channel and arrives one transmission time later, over the same route), far: the plain and the burst variant once more in a simulation that starts at 20000000.123456789 s, arrival times exact to the nanosecond; echo: the far end sends the received message object back as it is (the header must name the new receiver)}}; \
             oracle: exactly one handle_message at the far-end owner at send time + sum of latencies with last_gate / sender / receiver header fields; kind() per gate, path_iter from both ends mirror images, path_end / next_gate, channels on the declared hops, third peer rejected; \
             non-trivial = chain with at least 3 gates",
            tier.pick(5, 6)
        )
    }
    fn assumptions(&self) -> Vec<String> {
        vec!["channels have bitrate 0 (pure latency) except in the duplex variant (8000 bit/s, one message per direction); busy/queue behaviour is C07's subject".into()]
    }
    fn required_features(&self, _tier: Tier) -> Vec<&'static str> {
        vec!["chain_with_transit_gates", "two_gates_on_one_module", "cluster_end_gates", "reverse_direction", "injected_message", "reconnect_idempotence", "connects_out_of_chain_order", "third_peer_probe", "both_ends_send_at_once_over_channels_with_bitrate", "second_message_queued_behind_the_first", "received_message_sent_back_as_it_is", "simulation_starting_beyond_2^24_seconds"]
    }
    fn explore(&self, ctx: &mut Ctx) {
        if ctx.is_first_shard() {
            for orient in [false, true] {
                ctx.out.evaluations += 1;
                ctx.hit("third_peer_probe");
                if let Err(d) = third_peer_rejected(orient) {
                    ctx.violation("violation", || json!({"third_peer_probe": orient}), d);
                }
            }
        }
        let maxk = ctx.tier.pick(5, 6);
        for k in 2..=maxk {
            let edges = k - 1;
            for layout in 0..3u8 {
                if layout == 1 && k <= 3 {
                    continue;
                }
                for perm in perms(edges) {
                    for orient in 0..(1u32 << edges) {
                        for chans in 0..(1u32 << edges) {
                            for dir in 0..2u8 {
                                for send in [SendKind::Send, SendKind::SendIn(500_000_000), SendKind::Inject(250_000_000)] {
                                    for (reconnect, duplex, burst, echo, far) in [(false, false, false, false, false), (true, false, false, false, false), (false, true, false, false, false), (false, false, true, false, false), (false, false, false, true, false), (false, false, false, false, true), (false, false, true, false, true)] {
                                        if echo && matches!(send, SendKind::Inject(_)) {
                                            continue;
                                        }
                                        if duplex && (dir != 0 || chans == 0 || matches!(send, SendKind::Inject(_))) {
                                            continue;
                                        }
                                        if burst && (chans == 0 || matches!(send, SendKind::Inject(_))) {
                                            continue;
                                        }
                                        if !ctx.mine() {
                                            continue;
                                        }
                                        let c = Case { k, layout, perm: perm.clone(), orient, chans, dir, send, reconnect, duplex, burst, echo, far };
                                        if far {
                                            ctx.hit("simulation_starting_beyond_2^24_seconds");
                                        }
                                        if echo {
                                            ctx.hit("received_message_sent_back_as_it_is");
                                        }
                                        if burst {
                                            ctx.hit("second_message_queued_behind_the_first");
                                        }
                                        if duplex {
                                            ctx.hit("both_ends_send_at_once_over_channels_with_bitrate");
                                        }
                                        ctx.out.evaluations += 1;
                                        ctx.out.traces += 1;
                                        ctx.out.states += 1;
                                        ctx.out.transitions += edges as u64;
                                        if k >= 3 {
                                            ctx.hit("chain_with_transit_gates");
                                            ctx.out.nontrivial += 1;
                                        }
                                        if layout == 1 {
                                            ctx.hit("two_gates_on_one_module");
                                        }
                                        if layout == 2 {
                                            ctx.hit("cluster_end_gates");
                                        }
                                        if dir == 1 {
                                            ctx.hit("reverse_direction");
                                        }
                                        if matches!(send, SendKind::Inject(_)) {
                                            ctx.hit("injected_message");
                                        }
                                        if reconnect {
                                            ctx.hit("reconnect_idempotence");
                                        }
                                        if perm.windows(2).any(|w| w[0] > w[1]) {
                                            ctx.hit("connects_out_of_chain_order");
                                        }
                                        ctx.begin(|| case_json(&c));
                                        match run_case(&c) {
                                            Ok(o) => {
                                                ctx.outcome(o);
                                                if k == 4 && layout == 1 && chans == 0b101 && dir == 1 {
                                                    ctx.sample(|| case_json(&c));
                                                }
                                            }
                                            Err(d) => ctx.violation("violation", || case_json(&c), d),
                                        }
                                    }
                                }
                            }
                        }
                    }
                }
            }
        }
    }
    fn replay(&self, case: &Value) -> Result<(), String> {
        if let Some(o) = case.get("third_peer_probe") {
            return third_peer_rejected(o.as_bool().unwrap());
        }
        run_case(&case_from(case)).map(|_| ())
    }
}

fn main() {
    run_property(&C08);
}
