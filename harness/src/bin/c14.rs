//! C14 — processing elements bracket every module event in stack order.
//! Complete enumeration of processing stacks (global part x per-module part, append or
//! replace) over six element behaviours, on a real simulation whose module sees a start
//! stage, two messages, a timer wake-up and tear-down; expected call log computed directly.

use des::net::processing::{ProcessingElement, ProcessingStack};
use des::prelude::*;
use std::sync::{Arc, Mutex};
use vcheck::{json, quiet_catch, run_property, Ctx, Property, Tier, Value};

struct C14;

type Log = Arc<Mutex<Vec<String>>>;

#[derive(Clone, Copy, Debug, PartialEq, Eq)]
enum Kind {
    Pass,
    Modify,
    Consume1,
    Consume2,
    SendOnStart,
    SendOnEnd,
    /// event_end of the 1 s event wakes a task of the module, which sends a message
    WakeOnEnd,
}
const KINDS: [Kind; 7] = [Kind::Pass, Kind::Modify, Kind::Consume1, Kind::Consume2, Kind::SendOnStart, Kind::SendOnEnd, Kind::WakeOnEnd];

fn at_one_second() -> bool {
    SimTime::now() == SimTime::from_duration(Duration::from_secs(1))
}

struct Pe {
    idx: usize,
    kind: Kind,
    log: Log,
    wake: Arc<tokio::sync::Notify>,
}
impl ProcessingElement for Pe {
    fn event_start(&mut self) {
        self.log.lock().unwrap().push(format!("s{}", self.idx));
        if self.kind == Kind::SendOnStart && at_one_second() {
            send(Message::default().kind(50 + self.idx as u16), "out");
        }
    }
    fn event_end(&mut self) {
        self.log.lock().unwrap().push(format!("e{}", self.idx));
        if self.kind == Kind::SendOnEnd && at_one_second() {
            send(Message::default().kind(60 + self.idx as u16), "out");
        }
        if self.kind == Kind::WakeOnEnd && at_one_second() {
            self.wake.notify_one();
        }
    }
    fn incoming(&mut self, mut m: Message) -> Option<Message> {
        self.log.lock().unwrap().push(format!("i{}:{}", self.idx, m.header().kind));
        match self.kind {
            Kind::Modify => {
                m.header_mut().id += 1;
                Some(m)
            }
            Kind::Consume1 if m.header().kind == 1 => None,
            Kind::Consume2 if m.header().kind == 2 => None,
            _ => Some(m),
        }
    }
}

struct M {
    log: Log,
    local: Vec<Kind>,
    base: usize,
    replace: bool,
    /// append the per-module elements as one multi-element stack instead of one by one
    bulk: bool,
    /// 0 normal tear-down, 1 a task registered with current().join never finishes, 2 at_sim_end returns an error,
    /// 3 three start stages, the first requests a shutdown, 4 two start stages, the first requests a restart 1 s later
    ending: u8,
    inc: u32,
    wake: Arc<tokio::sync::Notify>,
}
impl Module for M {
    fn num_sim_start_stages(&self) -> usize {
        match self.ending {
            3 => 3,
            4 => 2,
            _ => 1,
        }
    }
    fn at_sim_start(&mut self, stage: usize) {
        if self.ending == 3 || self.ending == 4 {
            if stage == 0 {
                self.inc += 1;
            }
            self.log.lock().unwrap().push(format!("H:start{stage}"));
            if stage == 0 && self.inc == 1 {
                if self.ending == 3 {
                    current().shutdown();
                } else {
                    current().shutdow_and_restart_in(Duration::from_secs(1));
                }
            }
            if stage == 1 {
                schedule_in(Message::default().kind(2), Duration::from_secs(2));
            }
            return;
        }
        if self.ending == 6 {
            current().set_stereotyp(des::net::module::Stereotyp { on_panic_catch: true, ..Default::default() });
        }
        self.log.lock().unwrap().push("H:start".into());
        schedule_in(Message::default().kind(1), Duration::from_secs(1));
        schedule_in(Message::default().kind(2), Duration::from_secs(2));
        let l = self.log.clone();
        tokio::spawn(async move {
            des::time::sleep(Duration::from_secs(3)).await;
            l.lock().unwrap().push("H:task".into());
        });
        if self.ending <= 2 {
            // woken by an element's event_end (several wake-ups of one event coalesce)
            let (l, w) = (self.log.clone(), self.wake.clone());
            tokio::spawn(async move {
                loop {
                    w.notified().await;
                    l.lock().unwrap().push("H:woken".into());
                    send(Message::default().kind(70), "out");
                }
            });
        }
        if self.ending == 1 {
            current().join(tokio::spawn(std::future::pending::<()>()));
        }
    }
    fn handle_message(&mut self, m: Message) {
        self.log.lock().unwrap().push(format!("H:msg{}:id{}", m.header().kind, m.header().id));
        if at_one_second() && self.ending == 6 {
            panic!("handler gives up");
        }
        if at_one_second() && self.ending == 5 {
            // a later event first, then a long burst for this instant
            schedule_in(Message::default().kind(77), Duration::from_secs(5));
            for k in 100..140 {
                send(Message::default().kind(k), "out");
            }
        } else if at_one_second() {
            send(Message::default().kind(40), "out");
            send(Message::default().kind(41), "out");
        }
    }
    fn at_sim_end(&mut self) -> Result<(), RuntimeError> {
        self.log.lock().unwrap().push("H:end".into());
        if self.ending == 2 {
            return Err(RuntimeError::from(std::io::Error::other("module reports a failed run")));
        }
        Ok(())
    }
    fn stack(&self, s: ProcessingStack) -> ProcessingStack {
        let mut s = if self.replace { ProcessingStack::default() } else { s };
        if self.bulk {
            let mut own = ProcessingStack::default();
            for (k, kind) in self.local.iter().enumerate() {
                own.append(Pe { idx: self.base + k, kind: *kind, log: self.log.clone(), wake: self.wake.clone() });
            }
            s.append(own);
        } else {
            for (k, kind) in self.local.iter().enumerate() {
                s.append(Pe { idx: self.base + k, kind: *kind, log: self.log.clone(), wake: self.wake.clone() });
            }
        }
        s
    }
}

struct Sink {
    log: Log,
}
impl Module for Sink {
    fn handle_message(&mut self, m: Message) {
        self.log.lock().unwrap().push(format!("R:{}", m.header().kind));
    }
    fn stack(&self, _: ProcessingStack) -> ProcessingStack {
        ProcessingStack::default()
    }
}

#[derive(Clone, Debug)]
struct Case {
    global: Vec<Kind>,
    local: Vec<Kind>,
    replace: bool,
    bulk: bool,
    ending: u8,
}
fn case_json(c: &Case) -> Value {
    json!({"global": c.global.iter().map(|k| format!("{k:?}")).collect::<Vec<_>>(), "local": c.local.iter().map(|k| format!("{k:?}")).collect::<Vec<_>>(), "module_replaces_global_stack": c.replace, "local_part_appended_as_one_stack": c.bulk, "ending": c.ending})
}
fn case_from(v: &Value) -> Case {
    let ks = |x: &Value| x.as_array().unwrap().iter().map(|s| *KINDS.iter().find(|k| format!("{k:?}") == s.as_str().unwrap()).unwrap()).collect();
    Case { global: ks(&v["global"]), local: ks(&v["local"]), replace: v["module_replaces_global_stack"].as_bool().unwrap(), bulk: v["local_part_appended_as_one_stack"].as_bool().unwrap_or(false), ending: v["ending"].as_u64().unwrap_or(0) as u8 }
}

fn run_case(c: &Case) -> Result<u64, String> {
    let c2 = c.clone();
    let (got, ok) = quiet_catch(move || {
        let c = c2;
        let log: Log = Default::default();
        let mut sim = Sim::new(());
        let wake: Arc<tokio::sync::Notify> = Default::default();
        let (gg, lg, wk) = (c.global.clone(), log.clone(), wake.clone());
        sim.set_stack(move || {
            let mut s = ProcessingStack::default();
            for (k, kind) in gg.iter().enumerate() {
                s.append(Pe { idx: k, kind: *kind, log: lg.clone(), wake: wk.clone() });
            }
            s
        });
        sim.node("m", M { log: log.clone(), local: c.local.clone(), base: if c.replace { 0 } else { c.global.len() }, replace: c.replace, bulk: c.bulk, ending: c.ending, inc: 0, wake });
        sim.node("rx", Sink { log: log.clone() });
        sim.gate("m", "out").connect(sim.gate("rx", "in"), None);
        let r = Builder::seeded(1).quiet().build(sim.freeze()).run();
        let ok = r.is_ok();
        drop(r);
        let l = log.lock().unwrap().clone();
        (l, ok)
    })
    .map_err(|m| format!("panicked: {m}"))?;
    if c.ending >= 3 {
        // start-up sequences in which the module turns inert between two stages: whatever is
        // delivered or skipped, the log must consist of complete, non-interleaved brackets
        let all: Vec<Kind> = if c.replace { c.local.clone() } else { c.global.iter().chain(c.local.iter()).copied().collect() };
        let n = all.len();
        let own: Vec<&String> = got.iter().filter(|e| !e.starts_with("R:")).collect();
        let mut i = 0;
        let mut brackets = 0;
        let mut handlers = 0;
        while i < own.len() {
            for k in 0..n {
                if own.get(i).map(|s| s.as_str()) != Some(format!("s{k}").as_str()) {
                    return Err(format!("stack {all:?}, start-up variant {}: position {i} of the call log should open a bracket with s{k}: {own:?}", c.ending));
                }
                i += 1;
                if own.get(i).is_some_and(|s| s.starts_with(&format!("i{k}:"))) {
                    i += 1;
                }
            }
            // at most one handler call per bracket ...
            if i < own.len() && own[i].starts_with("H:") && *own[i] != "H:task" {
                handlers += 1;
                i += 1;
            }
            // ... and the module's task (not a handler) may finish inside any bracket
            while i < own.len() && *own[i] == "H:task" {
                i += 1;
            }
            for k in (0..n).rev() {
                if own.get(i).map(|s| s.as_str()) != Some(format!("e{k}").as_str()) {
                    return Err(format!("stack {all:?}, start-up variant {}: position {i} of the call log should close the bracket with e{k}: {own:?}", c.ending));
                }
                i += 1;
            }
            brackets += 1;
            if n == 0 {
                break;
            }
        }
        if c.ending < 5 && (!got.iter().any(|e| e == "H:start0") || (c.ending == 4 && got.iter().filter(|e| *e == "H:start1").count() != 1)) {
            return Err(format!("start-up variant {}: unexpected start stages in {got:?}", c.ending));
        }
        if c.ending == 5 {
            // what reaches the sink, in program order: event_start sends in stack order, the
            // handler's burst (unless the message was consumed), event_end sends in reverse order
            let consumed = all.contains(&Kind::Consume1);
            let mut exp_r: Vec<String> = vec![];
            for (i, k) in all.iter().enumerate() {
                if *k == Kind::SendOnStart {
                    exp_r.push(format!("R:{}", 50 + i));
                }
            }
            if !consumed {
                exp_r.extend((100..140).map(|k| format!("R:{k}")));
            }
            for (i, k) in all.iter().enumerate().rev() {
                if *k == Kind::SendOnEnd {
                    exp_r.push(format!("R:{}", 60 + i));
                }
            }
            let got_r: Vec<String> = got.iter().filter(|e| e.starts_with("R:")).cloned().collect();
            if got_r != exp_r {
                return Err(format!("stack {all:?}: a handler that arms a later self message and then sends 40 messages: the sink received {got_r:?}, program order is {exp_r:?}"));
            }
        }
        return Ok(vcheck::fp(&(brackets, handlers, c.ending)));
    }
    if ok != (c.ending == 0) {
        return Err(format!("run returned {} (tear-down variant {})", if ok { "Ok" } else { "an error" }, c.ending));
    }
    let all: Vec<Kind> = if c.replace { c.local.clone() } else { c.global.iter().chain(c.local.iter()).copied().collect() };
    let n = all.len();
    let mut exp: Vec<String> = vec![];
    // one bracket; returns the messages emitted towards the sink, in program order
    let bracket = |exp: &mut Vec<String>, msg: Option<(u16, u16)>, body: &str, sends: bool| -> Vec<u16> {
        let mut out = vec![];
        let mut cur = msg;
        for i in 0..n {
            exp.push(format!("s{i}"));
            if sends && all[i] == Kind::SendOnStart {
                out.push(50 + i as u16);
            }
            if let Some((kind, id)) = cur {
                exp.push(format!("i{i}:{kind}"));
                cur = match all[i] {
                    Kind::Modify => Some((kind, id + 1)),
                    Kind::Consume1 if kind == 1 => None,
                    Kind::Consume2 if kind == 2 => None,
                    _ => Some((kind, id)),
                };
            }
        }
        if msg.is_some() {
            if let Some((kind, id)) = cur {
                exp.push(format!("H:msg{kind}:id{id}"));
                if sends {
                    out.push(40);
                    out.push(41);
                }
            }
        } else if !body.is_empty() {
            exp.push(body.to_string());
        }
        for i in (0..n).rev() {
            exp.push(format!("e{i}"));
            if sends && all[i] == Kind::SendOnEnd {
                out.push(60 + i as u16);
            }
        }
        if sends {
            // the task an end hook woke runs within this event, after the hooks; its messages follow theirs
            // (tokio's Notify: the first notify_one wakes the waiter, a second one leaves one permit, further ones nothing)
            for _ in 0..all.iter().filter(|k| **k == Kind::WakeOnEnd).count().min(2) {
                exp.push("H:woken".into());
            }
            for _ in 0..all.iter().filter(|k| **k == Kind::WakeOnEnd).count().min(2) {
                out.push(70);
            }
        }
        out
    };
    bracket(&mut exp, None, "H:start", false);
    let emitted = bracket(&mut exp, Some((1, 0)), "", true);
    // the sink handles the emitted messages (its own stack is empty) right after the event, in program order
    for k in &emitted {
        exp.push(format!("R:{k}"));
    }
    bracket(&mut exp, Some((2, 0)), "", false);
    bracket(&mut exp, None, "H:task", false);
    bracket(&mut exp, None, "H:end", false);
    if got != exp {
        let first = got.iter().zip(&exp).position(|(a, b)| a != b).unwrap_or(got.len().min(exp.len()));
        return Err(format!(
            "stack {all:?}: call log differs from the bracket structure at position {first}: got {:?}, expected {:?} (full: got {got:?})",
            got.get(first),
            exp.get(first)
        ));
    }
    Ok(vcheck::fp(&got))
}

fn stacks(max: usize) -> Vec<Vec<Kind>> {
    let mut out: Vec<Vec<Kind>> = vec![vec![]];
    let mut layer: Vec<Vec<Kind>> = vec![vec![]];
    for _ in 0..max {
        let mut next = vec![];
        for s in &layer {
            for k in KINDS {
                let mut s2 = s.clone();
                s2.push(k);
                next.push(s2);
            }
        }
        out.extend(next.iter().cloned());
        layer = next;
    }
    out
}

impl Property for C14 {
    fn id(&self) -> &'static str {
        "C14"
    }
    fn rule(&self, tier: Tier) -> String {
        format!(
            "every global stack of 0..={} elements x every per-module stack of 0..={} elements (Module::stack appending to the global stack element by element or as one multi-element stack, or replacing it) over {{pass, modify id, consume kind 1, consume kind 2, send on event_start, send on event_end, wake a task of the module from event_end (the task runs within that event, after the hooks, also when the message was consumed, and its message follows theirs)}}; \
             the module sees a start stage, message kind 1 (during which elements and the handler send to a sink), message kind 2, a timer wake-up and tear-down (normal, with a joined task that never finished, with at_sim_end returning an error: the tear-down event is bracketed all the same); plus two start-up variants (three stages, the first requests a shutdown; two stages, the first requests a restart): whatever is delivered or skipped, the call log consists of complete, non-interleaved brackets; plus a variant whose handler arms a later self message and then emits 40 messages in one event (elements emitting on event_start / event_end around it): the sink receives everything in program order; plus a variant whose handler panics under a panic-catching stereotype (the brackets stay complete); \
             oracle: expected call log computed directly (event_start in stack order interleaved with incoming until consumed, handler iff not consumed, event_end in reverse order, brackets never interleave, emitted messages reach the sink in program order); \
             non-trivial = stack with at least 2 elements",
            tier.pick(3, 4),
            tier.pick(2, 3)
        )
    }
    fn assumptions(&self) -> Vec<String> {
        vec!["processing elements that panic themselves, and stacks changed at run time, are outside the alphabet".into()]
    }
    fn required_features(&self, _tier: Tier) -> Vec<&'static str> {
        vec!["early_element_consumes", "element_sends", "global_and_local_parts", "module_replaces_stack", "empty_stack", "multi_element_stack_appended_to_global", "tear_down_ending_in_an_error", "module_turns_inert_between_start_stages", "large_emission_in_one_event", "handler_panic_caught_by_the_stereotype"]
    }
    fn explore(&self, ctx: &mut Ctx) {
        let gs = stacks(ctx.tier.pick(3, 4));
        let ls = stacks(ctx.tier.pick(2, 3));
        for g in &gs {
            for l in &ls {
                for (replace, bulk, ending) in [(false, false, 0u8), (true, false, 0), (false, true, 0), (false, false, 1), (false, false, 2), (false, false, 3), (false, false, 4), (false, false, 5), (false, false, 6)] {
                    if replace && g.len() > 1 {
                        continue;
                    }
                    if bulk && l.len() < 2 {
                        continue;
                    }
                    if !ctx.mine() {
                        continue;
                    }
                    let c = Case { global: g.clone(), local: l.clone(), replace, bulk, ending };
                    if ending == 1 || ending == 2 {
                        ctx.hit("tear_down_ending_in_an_error");
                    }
                    if ending == 3 || ending == 4 {
                        ctx.hit("module_turns_inert_between_start_stages");
                    }
                    if ending == 5 {
                        ctx.hit("large_emission_in_one_event");
                    }
                    if ending == 6 {
                        ctx.hit("handler_panic_caught_by_the_stereotype");
                    }
                    ctx.begin(|| case_json(&c));
                    ctx.out.evaluations += 1;
                    ctx.out.traces += 1;
                    ctx.out.states += 1;
                    ctx.out.transitions += 5;
                    let all: Vec<Kind> = if replace { l.clone() } else { g.iter().chain(l.iter()).copied().collect() };
                    if all.len() >= 2 {
                        ctx.out.nontrivial += 1;
                    }
                    if all.len() >= 2 && matches!(all[0], Kind::Consume1 | Kind::Consume2) {
                        ctx.hit("early_element_consumes");
                    }
                    if all.iter().any(|k| matches!(k, Kind::SendOnStart | Kind::SendOnEnd)) {
                        ctx.hit("element_sends");
                    }
                    if !g.is_empty() && !l.is_empty() && !replace {
                        ctx.hit("global_and_local_parts");
                    }
                    if replace && !g.is_empty() {
                        ctx.hit("module_replaces_stack");
                    }
                    if all.is_empty() {
                        ctx.hit("empty_stack");
                    }
                    if bulk && !g.is_empty() {
                        ctx.hit("multi_element_stack_appended_to_global");
                    }
                    match run_case(&c) {
                        Ok(o) => {
                            ctx.outcome(o);
                            if all.len() == 4 && all[1] == Kind::Consume1 {
                                ctx.sample(|| case_json(&c));
                            }
                        }
                        Err(d) => ctx.violation("violation", || case_json(&c), d),
                    }
                }
            }
        }
    }
    fn replay(&self, case: &Value) -> Result<(), String> {
        run_case(&case_from(case)).map(|_| ())
    }
}

fn main() {
    run_property(&C14);
}
