//! C11 — runtime limits stop the run exactly where specified without losing events.
//! Every event program x every limit tree (None, EventCount, SimTime, And/Or trees up to
//! depth 2, builder chains), on the real `Runtime`, against an independent evaluator of
//! the limit applied to the log of the real unlimited run.

use des::runtime::{Builder, RuntimeLimit};
use std::sync::Arc;
use vcheck::rtlab::*;
use vcheck::{json, quiet_catch, run_property, Ctx, Property, Tier, Value};

struct C11;

#[derive(Clone, Debug, PartialEq)]
enum Lim {
    None,
    N(usize),
    T(u64),
    And(Box<Lim>, Box<Lim>),
    Or(Box<Lim>, Box<Lim>),
}
impl Lim {
    fn to_rt(&self) -> RuntimeLimit {
        match self {
            Lim::None => RuntimeLimit::None,
            Lim::N(n) => RuntimeLimit::EventCount(*n),
            Lim::T(t) => RuntimeLimit::SimTime(ns(*t)),
            Lim::And(a, b) => RuntimeLimit::CombinedAnd(Box::new(a.to_rt()), Box::new(b.to_rt())),
            Lim::Or(a, b) => RuntimeLimit::CombinedOr(Box::new(a.to_rt()), Box::new(b.to_rt())),
        }
    }
    /// does the limit forbid dispatching the k-th event (1-based) carrying timestamp t?
    fn stops(&self, k: usize, t: u128) -> bool {
        match self {
            Lim::None => false,
            Lim::N(n) => k > *n,
            Lim::T(x) => t > u128::from(*x),
            Lim::And(a, b) => a.stops(k, t) && b.stops(k, t),
            Lim::Or(a, b) => a.stops(k, t) || b.stops(k, t),
        }
    }
    fn to_json(&self) -> Value {
        match self {
            Lim::None => json!("none"),
            Lim::N(n) => json!({"count": n}),
            Lim::T(t) => json!({"time_ns": t}),
            Lim::And(a, b) => json!({"and": [a.to_json(), b.to_json()]}),
            Lim::Or(a, b) => json!({"or": [a.to_json(), b.to_json()]}),
        }
    }
    fn from_json(v: &Value) -> Lim {
        if v.is_string() {
            return Lim::None;
        }
        if let Some(n) = v.get("count") {
            return Lim::N(n.as_u64().unwrap() as usize);
        }
        if let Some(t) = v.get("time_ns") {
            return Lim::T(t.as_u64().unwrap());
        }
        if let Some(a) = v.get("and") {
            return Lim::And(Box::new(Lim::from_json(&a[0])), Box::new(Lim::from_json(&a[1])));
        }
        let o = &v["or"];
        Lim::Or(Box::new(Lim::from_json(&o[0])), Box::new(Lim::from_json(&o[1])))
    }
}

/// How the limit reaches the runtime.
#[derive(Clone, Copy, Debug, PartialEq)]
enum Via {
    /// Builder::limit(tree)
    Limit,
    /// Builder::max_itr(a).max_time(x)  == stop when either holds
    ChainItrTime,
    /// Builder::max_time(x).max_itr(a)
    ChainTimeItr,
    /// two plain bounds added one after the other through max_itr / max_time (either stops the run)
    ChainLeaves,
    /// the same through Builder::limit(leaf).limit(leaf)
    ChainLimitLeaves,
    /// Builder::limit(tree) followed by max_itr / max_time of a plain bound
    LimitThenBound,
}

fn run_case(cfg: RtCfg, prog: &Arc<Program>, lim: &Lim, via: Via, base: &[(u32, u128)]) -> Result<u64, String> {
    let rl = lim.to_rt();
    let limc = lim.clone();
    vcheck::rtlab::END_ADDS.with(|e| *e.borrow_mut() = END_DELAYS.to_vec());
    let b = build_with(cfg, prog, None, move |b| match (via, &limc) {
        (Via::Limit, Lim::None) => b,
        (Via::Limit, _) => b.limit(rl),
        (Via::ChainItrTime, Lim::Or(a, x)) => match (&**a, &**x) {
            (Lim::N(a), Lim::T(x)) => b.max_itr(*a).max_time(ns(*x)),
            _ => unreachable!(),
        },
        (Via::ChainTimeItr, Lim::Or(a, x)) => match (&**a, &**x) {
            (Lim::N(a), Lim::T(x)) => b.max_time(ns(*x)).max_itr(*a),
            _ => unreachable!(),
        },
        (Via::ChainLeaves, Lim::Or(l1, l2)) => {
            let add = |b: Builder, l: &Lim| match l {
                Lim::N(a) => b.max_itr(*a),
                Lim::T(x) => b.max_time(ns(*x)),
                _ => unreachable!(),
            };
            add(add(b, l1), l2)
        }
        (Via::ChainLimitLeaves, Lim::Or(l1, l2)) => b.limit(l1.to_rt()).limit(l2.to_rt()),
        (Via::LimitThenBound, Lim::Or(tree, leaf)) => match &**leaf {
            Lim::N(a) => b.limit(tree.to_rt()).max_itr(*a),
            Lim::T(x) => b.limit(tree.to_rt()).max_time(ns(*x)),
            _ => unreachable!(),
        },
        _ => unreachable!(),
    });
    let log = b.log.clone();
    // every second run whose limit admits at least one event is not started with run() but by hand:
    // start, one counted step, dispatch_all, finish - the builder's limit governs the rest all the same
    let admits_one = base.first().is_some_and(|e| !lim.stops(1, e.1)) && !matches!(lim, Lim::None);
    let stepped = via == Via::Limit && admits_one && STEPPED.with(|c| c.replace(c.get() + 1)) % 2 == 1;
    let r = quiet_catch(move || {
        let mut rt = b.rt;
        if stepped {
            rt.start();
            rt.dispatch_n_events(1);
            rt.dispatch_all();
            rt.finish()
        } else {
            rt.run()
        }
    })
    .map_err(|m| format!("run panicked: {m}"))?;
    vcheck::rtlab::END_ADDS.with(|e| e.borrow_mut().clear());
    let (_, end, prof) = r.map_err(|e| format!("run returned an error: {e:?}"))?;
    let got = log.lock().unwrap().clone();
    // longest admitted prefix of the time-ordered sequence
    let prefix = |l: &Lim| -> usize {
        let mut k = 0;
        while k < base.len() && !l.stops(k + 1, base[k].1) {
            k += 1;
        }
        k
    };
    let mut k = prefix(lim);
    // Two bounds given one after the other through the builder: the documentation of
    // Builder::limit speaks of overwriting, the code combines them (either stops the run). The
    // statement does not settle it, so both readings are accepted for these chains.
    if matches!(via, Via::ChainLeaves | Via::ChainLimitLeaves | Via::LimitThenBound) {
        if let Lim::Or(_, last) = lim {
            if got.len() == prefix(last) && got.as_slice() == &base[..got.len()] {
                k = got.len();
            }
        }
    }
    if got.as_slice() != &base[..k] {
        return Err(format!(
            "limit {:?} admits exactly the first {k} of the events {base:?}, the run dispatched {got:?}",
            lim.to_json().to_string()
        ));
    }
    let exp_end = if k == 0 { u128::from(cfg.start) } else { base[k - 1].1 };
    if end.as_nanos() != exp_end {
        return Err(format!("reported end time {}ns, last dispatched timestamp {exp_end}ns", end.as_nanos()));
    }
    if prof.event_count != k {
        return Err(format!("profiler event_count {} != {k} dispatched events", prof.event_count));
    }
    // remaining = everything scheduled so far and not dispatched, with timestamps
    let mut sched: Vec<(u32, u128)> = prog.roots.iter().map(|&(i, d)| (i, u128::from(cfg.start + d))).collect();
    for &(id, tt) in &base[..k] {
        for &(c, d) in &prog.children[id as usize] {
            sched.push((c, tt + u128::from(d)));
        }
    }
    let mut rem_exp: Vec<(u32, u128)> = sched.into_iter().filter(|e| !base[..k].contains(e)).collect();
    // what the application scheduled in its at_sim_end can never run and is not lost either
    for (i, d) in END_DELAYS.iter().enumerate() {
        rem_exp.push((900 + i as u32, exp_end + u128::from(*d)));
    }
    rem_exp.sort_unstable();
    let mut rem_got: Vec<(u32, u128)> = prof.remaining.iter().map(|(e, t)| (e.0, t.as_nanos())).collect();
    let in_order = rem_got.windows(2).all(|w| w[0].1 <= w[1].1);
    rem_got.sort_unstable();
    if rem_got != rem_exp {
        return Err(format!("remaining events {rem_got:?} differ from the undelivered events {rem_exp:?}"));
    }
    let _ = in_order;
    Ok(vcheck::fp(&(k, &rem_got)))
}

thread_local! {
    static STEPPED: std::cell::Cell<u64> = const { std::cell::Cell::new(0) };
}
/// delays of the two events every limited run's application schedules in at_sim_end
const END_DELAYS: [u64; 2] = [0, 3];

fn unlimited(cfg: RtCfg, prog: &Arc<Program>) -> Result<Vec<(u32, u128)>, String> {
    let b = build(cfg, prog, None, None);
    let log = b.log.clone();
    let r = quiet_catch(move || b.rt.run()).map_err(|m| format!("unlimited run panicked: {m}"))?;
    let (_, _, prof) = r.map_err(|e| format!("{e:?}"))?;
    if !prof.remaining.is_empty() {
        return Err(format!("unlimited run left {} events", prof.remaining.len()));
    }
    let l = log.lock().unwrap().clone();
    Ok(l)
}

fn limits(m: usize, ts: &[u64], depth2: bool) -> Vec<(Lim, Via)> {
    let mut tc = vec![];
    for &x in ts {
        if x > 0 {
            tc.push(x - 1);
        }
        tc.push(x);
        tc.push(x + 1);
    }
    tc.sort_unstable();
    tc.dedup();
    let ns_: Vec<Lim> = (0..=m + 1).map(Lim::N).collect();
    let tsl: Vec<Lim> = tc.iter().map(|&x| Lim::T(x)).collect();
    let mut out = vec![(Lim::None, Via::Limit)];
    out.extend(ns_.iter().cloned().map(|l| (l, Via::Limit)));
    out.extend(tsl.iter().cloned().map(|l| (l, Via::Limit)));
    let mut leaves2 = vec![];
    for a in &ns_ {
        for x in &tsl {
            let and = Lim::And(Box::new(a.clone()), Box::new(x.clone()));
            let or = Lim::Or(Box::new(a.clone()), Box::new(x.clone()));
            out.push((and.clone(), Via::Limit));
            out.push((Lim::And(Box::new(x.clone()), Box::new(a.clone())), Via::Limit));
            out.push((or.clone(), Via::Limit));
            out.push((or.clone(), Via::ChainItrTime));
            out.push((or.clone(), Via::ChainTimeItr));
            leaves2.push(and);
            leaves2.push(or);
        }
    }
    if depth2 {
        // every ordered pair of plain bounds added one after the other through the builder
        let leaves: Vec<&Lim> = ns_.iter().chain(tsl.iter()).collect();
        for l1 in &leaves {
            for l2 in &leaves {
                let or = Lim::Or(Box::new((*l1).clone()), Box::new((*l2).clone()));
                out.push((or.clone(), Via::ChainLeaves));
                out.push((or, Via::ChainLimitLeaves));
            }
        }
        // depth-2 trees: (N op T) op' leaf, for leaf in N ∪ T
        for l2 in &leaves2 {
            for leaf in ns_.iter().chain(tsl.iter()) {
                out.push((Lim::And(Box::new(l2.clone()), Box::new(leaf.clone())), Via::Limit));
                out.push((Lim::Or(Box::new(leaf.clone()), Box::new(l2.clone())), Via::Limit));
                out.push((Lim::Or(Box::new(l2.clone()), Box::new(leaf.clone())), Via::LimitThenBound));
            }
        }
    }
    out
}

fn case_json(cfg: RtCfg, prog: &Program, lim: &Lim, via: Via) -> Value {
    json!({"n": cfg.n, "t_ns": cfg.t, "start_ns": cfg.start, "program": prog.to_json(), "limit": lim.to_json(), "via": format!("{via:?}")})
}

const CFGS: [(usize, u64); 3] = [(1, 1), (2, 3), (4, 5)];

impl Property for C11 {
    fn id(&self) -> &'static str {
        "C11"
    }
    fn rule(&self, tier: Tier) -> String {
        format!(
            "every event program of 1..={} events (delays {{0,1,t,Y+1}}) x start in {{0,5}} x (n,t) in {:?} x every limit: None, EventCount(0..=m+1), SimTime(T) for T = every timestamp and +-1ns, \
             And/Or of every (count, time) pair in both operand orders and via Builder::max_itr/max_time chains in both orders{}, and every ordered pair of plain bounds (count/count, time/time, mixed) added one after the other through max_itr/max_time and through limit(..).limit(..); \
             every second run whose limit admits an event is driven by hand (start, one counted step, dispatch_all, finish) instead of run(); plus two programs of 6 events 1-2 ns apart beyond 2^24 s / 2^25 s of simulated time under every such limit; oracle: own evaluator applied to the log L of the real unlimited run: dispatched == longest admitted prefix of L, remaining == undelivered events with timestamps plus the two events the application schedules in its at_sim_end, end time, event_count; \
             non-trivial = the limit cuts the run strictly inside (0 < k < |L|)",
            tier.pick(4, 5),
            CFGS,
            format!(", plus every depth-2 tree ((count op time) op' leaf) for programs of up to {} events", tier.pick(3, 4))
        )
    }
    fn assumptions(&self) -> Vec<String> {
        vec!["the time-ordered event sequence of a program is taken from the real unlimited run (differential), so the oracle does not depend on the tie rule".into()]
    }
    fn required_features(&self, _tier: Tier) -> Vec<&'static str> {
        vec!["count_limit_equals_total", "time_limit_equals_a_timestamp", "time_limit_inside_tie_group", "and_tree", "or_tree", "builder_chain", "builder_chain_of_two_bounds_of_one_kind", "cut_with_remaining_events", "builder_limit_tree_then_plain_bound", "limits_beyond_2^24_seconds"]
    }
    fn explore(&self, ctx: &mut Ctx) {
        if ctx.is_first_shard() {
            // limits far from zero: events 1 ns apart beyond 2^24 s of simulated time (1 ns is below the
            // resolution of an f64 second count there), under every limit the small programs get
            for (n, t, b0) in [(8usize, 99_900_000_000u64, (1u64 << 24) * 1_000_000_000 + 123_456_789), (8, 99_900_000_000, (1u64 << 25) * 1_000_000_000 + 999_999_990)] {
                // (coarse buckets and a start time just before the events keeps the calendar's linear head scan short; work is spread over the workers below)
                let cfg = RtCfg { n, t, start: b0 - 5 };
                let m = 6usize;
                let prog = Arc::new(Program { roots: (0..m as u32).map(|j| (j, 5 + u64::from(j) + u64::from(j / 3))).collect(), children: vec![vec![]; m] });
                let base = match unlimited(cfg, &prog) {
                    Ok(b) => b,
                    Err(d) => {
                        ctx.violation("violation", || case_json(cfg, &prog, &Lim::None, Via::Limit), d);
                        continue;
                    }
                };
                let mut ts: Vec<u64> = base.iter().map(|e| e.1 as u64).collect();
                ts.sort_unstable();
                ts.dedup();
                for (lim, via) in limits(m, &ts, false) {
                    ctx.out.evaluations += 1;
                    ctx.out.traces += 1;
                    ctx.hit("limits_beyond_2^24_seconds");
                    ctx.begin(|| case_json(cfg, &prog, &lim, via));
                    match run_case(cfg, &prog, &lim, via, &base) {
                        Ok(o) => ctx.outcome(o),
                        Err(d) => ctx.violation("violation", || case_json(cfg, &prog, &lim, via), d),
                    }
                }
            }
        }
        let maxm = ctx.tier.pick(4, 5);
        for (n, t) in CFGS {
            let y = n as u64 * t;
            let mut deltas = vec![0, 1, t, y + 1];
            deltas.sort_unstable();
            deltas.dedup();
            for start in [0u64, 5] {
                let cfg = RtCfg { n, t, start };
                for m in 1..=maxm {
                    let mut progs = vec![];
                    for_each_program(m, &deltas, |p| {
                        if ctx.mine() {
                            progs.push(p.clone());
                        }
                    });
                    for p in progs {
                        let prog = Arc::new(p);
                        ctx.begin(|| case_json(cfg, &prog, &Lim::None, Via::Limit));
                        let base = match unlimited(cfg, &prog) {
                            Ok(b) => b,
                            Err(d) => {
                                ctx.violation("violation", || case_json(cfg, &prog, &Lim::None, Via::Limit), d);
                                continue;
                            }
                        };
                        let mut ts: Vec<u64> = base.iter().map(|e| e.1 as u64).collect();
                        ts.sort_unstable();
                        ts.dedup();
                        let has_tie = ts.len() < base.len();
                        for (lim, via) in limits(m, &ts, m <= ctx.tier.pick(3, 4)) {
                            ctx.out.evaluations += 1;
                            ctx.out.traces += 1;
                            ctx.out.states += 1;
                            ctx.out.transitions += base.len() as u64;
                            let mut k = 0;
                            while k < base.len() && !lim.stops(k + 1, base[k].1) {
                                k += 1;
                            }
                            if k > 0 && k < base.len() {
                                ctx.out.nontrivial += 1;
                                ctx.hit("cut_with_remaining_events");
                            }
                            match &lim {
                                Lim::N(x) if *x == base.len() => ctx.hit("count_limit_equals_total"),
                                Lim::T(x) if ts.contains(x) => {
                                    ctx.hit("time_limit_equals_a_timestamp");
                                    if has_tie {
                                        ctx.hit("time_limit_inside_tie_group");
                                    }
                                }
                                Lim::And(..) => ctx.hit("and_tree"),
                                Lim::Or(..) => ctx.hit("or_tree"),
                                _ => {}
                            }
                            if via != Via::Limit {
                                ctx.hit("builder_chain");
                            }
                            if via == Via::LimitThenBound {
                                ctx.hit("builder_limit_tree_then_plain_bound");
                            }
                            if matches!(via, Via::ChainLeaves | Via::ChainLimitLeaves) {
                                if let Lim::Or(a, b) = &lim {
                                    if matches!((&**a, &**b), (Lim::T(_), Lim::T(_)) | (Lim::N(_), Lim::N(_))) {
                                        ctx.hit("builder_chain_of_two_bounds_of_one_kind");
                                    }
                                }
                            }
                            ctx.begin(|| case_json(cfg, &prog, &lim, via));
                            match run_case(cfg, &prog, &lim, via, &base) {
                                Ok(o) => {
                                    ctx.outcome(o);
                                    if m == 3 && k == 2 && matches!(lim, Lim::And(..)) {
                                        ctx.sample(|| case_json(cfg, &prog, &lim, via));
                                    }
                                }
                                Err(d) => ctx.violation("violation", || case_json(cfg, &prog, &lim, via), d),
                            }
                        }
                    }
                }
            }
        }
    }
    fn replay(&self, case: &Value) -> Result<(), String> {
        let cfg = RtCfg { n: case["n"].as_u64().unwrap() as usize, t: case["t_ns"].as_u64().unwrap(), start: case["start_ns"].as_u64().unwrap() };
        let prog = Arc::new(Program::from_json(&case["program"]));
        let lim = Lim::from_json(&case["limit"]);
        let via = match case["via"].as_str().unwrap() {
            "ChainItrTime" => Via::ChainItrTime,
            "ChainTimeItr" => Via::ChainTimeItr,
            "ChainLeaves" => Via::ChainLeaves,
            "ChainLimitLeaves" => Via::ChainLimitLeaves,
            "LimitThenBound" => Via::LimitThenBound,
            _ => Via::Limit,
        };
        let base = unlimited(cfg, &prog)?;
        run_case(cfg, &prog, &lim, via, &base).map(|_| ())
    }
}

fn main() {
    run_property(&C11);
}
