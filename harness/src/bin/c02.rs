//! C02 — the simulation clock is monotone, equals the running event's timestamp, and
//! scheduling into the past is rejected (also with a non-zero start time).
//! Stateless complete enumeration of event programs x start times x queue parameters x
//! probe placements on the real `Runtime`.

use std::sync::Arc;
use vcheck::rtlab::*;
use vcheck::{json, quiet_catch, run_property, Ctx, Property, Tier, Value};

struct C02;

#[derive(Clone, Copy, Debug, PartialEq)]
enum ProbeSpec {
    None,
    /// add_event(start - back) before `run`
    PreRun(u64),
    /// add_event(now - back) inside the handler of event `at` (back = 0: must be accepted)
    InHandler(u32, u64),
    /// start, dispatch_n_events(k), then add_event at absolute time T (>= the paused time)
    /// from outside, then run to the end
    PausedAdd(usize, u64),
}

/// (n, t, largest program size)
fn cfgs(tier: Tier) -> Vec<(usize, u64, usize)> {
    match tier {
        Tier::Quick => vec![(1, 1, 4), (2, 3, 4), (3, 2, 4), (4, 5, 4)],
        Tier::Thorough => vec![(1, 1, 5), (2, 3, 5), (3, 2, 5), (4, 5, 4), (7, 2, 4), (1028, 2_500_000, 3)],
    }
}

/// Timestamps every event must carry, computed causally (independent of any tie rule).
fn scheduled_times(start: u64, prog: &Program) -> Vec<u128> {
    let m = prog.m();
    let mut ts = vec![0u128; m];
    for &(id, d) in &prog.roots {
        ts[id as usize] = u128::from(start + d);
    }
    // parents have smaller ids than their children
    for p in 0..m {
        for &(c, d) in &prog.children[p] {
            ts[c as usize] = ts[p] + u128::from(d);
        }
    }
    ts
}

fn check_log(start: u64, prog: &Program, log: &[(u32, u128)], end: u128, extra: Option<(u32, u128)>) -> Result<(), String> {
    let ts = scheduled_times(start, prog);
    let mut seen = vec![0u32; prog.m()];
    let mut extra_seen = 0;
    let mut last = u128::from(start);
    for &(id, now) in log {
        if now < last {
            return Err(format!("clock went backwards: event {id} observed {now}ns after {last}ns"));
        }
        last = now;
        if let Some((eid, et)) = extra {
            if id == eid {
                extra_seen += 1;
                if now != et {
                    return Err(format!("event scheduled at exactly the current time ({et}ns) ran at {now}ns"));
                }
                continue;
            }
        }
        let Some(s) = seen.get_mut(id as usize) else {
            return Err(format!("unknown event {id} was handled"));
        };
        *s += 1;
        if now != ts[id as usize] {
            return Err(format!("SimTime::now() = {now}ns inside the handler of event {id}, which was scheduled for {}ns", ts[id as usize]));
        }
    }
    for (id, s) in seen.iter().enumerate() {
        if *s != 1 {
            return Err(format!("event {id} handled {s} times"));
        }
    }
    if extra.is_some() && extra_seen != 1 {
        return Err(format!("the event accepted at the current time was handled {extra_seen} times"));
    }
    let exp_end = log.last().map_or(u128::from(start), |e| e.1);
    if end != exp_end {
        return Err(format!("run reported end time {end}ns, last dispatched timestamp is {exp_end}ns"));
    }
    Ok(())
}

fn run_case(cfg: RtCfg, prog: &Arc<Program>, probe: ProbeSpec) -> Result<u64, String> {
    match probe {
        ProbeSpec::None => {
            let b = build(cfg, prog, None, None);
            let log = b.log.clone();
            let r = quiet_catch(move || b.rt.run()).map_err(|m| format!("run panicked: {m}"))?;
            let (_, end, _) = r.map_err(|e| format!("run returned an error: {e:?}"))?;
            let l = log.lock().unwrap().clone();
            check_log(cfg.start, prog, &l, end.as_nanos(), None).map(|()| vcheck::fp(&l))
        }
        ProbeSpec::PreRun(back) => {
            let mut b = build(cfg, prog, None, None);
            let tpast = ns(cfg.start - back);
            let rt = &mut b.rt;
            let rejected = quiet_catch(|| rt.add_event(Ev(PROBE_ID), tpast)).is_err();
            if !rejected {
                // show the consequence as well: does the clock rewind?
                let log = b.log.clone();
                let _ = quiet_catch(move || b.rt.run());
                let l = log.lock().unwrap().clone();
                let rew = l.iter().find(|e| e.1 < u128::from(cfg.start));
                return Err(format!(
                    "add_event at {}ns was accepted although the simulation time is {}ns (start time){}",
                    cfg.start - back,
                    cfg.start,
                    rew.map_or(String::new(), |e| format!("; event {} then ran with the clock at {}ns", e.0, e.1))
                ));
            }
            // the rejected add must leave the runtime usable and unchanged
            let log = b.log.clone();
            let r = quiet_catch(move || b.rt.run()).map_err(|m| format!("run after a rejected add panicked: {m}"))?;
            let (_, end, _) = r.map_err(|e| format!("run returned an error: {e:?}"))?;
            let l = log.lock().unwrap().clone();
            check_log(cfg.start, prog, &l, end.as_nanos(), None).map(|()| vcheck::fp(&l))
        }
        ProbeSpec::PausedAdd(k, at) => {
            let b = build(cfg, prog, None, None);
            let log = b.log.clone();
            let mut rt = b.rt;
            let r = quiet_catch(move || -> Result<u128, String> {
                rt.start();
                rt.dispatch_n_events(k);
                let before = rt.sim_time().as_nanos();
                // a time-bounded step whose bound is not ahead of the clock must not set the clock back
                rt.dispatch_events_until(ns(cfg.start));
                let now = rt.sim_time().as_nanos();
                if now < before || des::time::SimTime::now().as_nanos() < before {
                    return Err(format!("dispatch_events_until({}ns) on a runtime paused at {before}ns set the clock back to {now}ns", cfg.start));
                }
                if u128::from(at) < now {
                    return Ok(u128::MAX); // not applicable at this cut
                }
                let rtm = &mut rt;
                if std::panic::catch_unwind(std::panic::AssertUnwindSafe(|| rtm.add_event(Ev(PROBE_ID), ns(at)))).is_err() {
                    return Err(format!("add_event at {at}ns was rejected while the paused runtime reports {now}ns"));
                }
                rt.dispatch_all();
                let (_, end, _) = rt.finish().map_err(|e| format!("finish returned an error: {e:?}"))?;
                Ok(end.as_nanos())
            })
            .map_err(|m| format!("stepping panicked: {m}"))??;
            let l = log.lock().unwrap().clone();
            if r == u128::MAX {
                return Ok(0);
            }
            check_log(cfg.start, prog, &l, r, Some((PROBE_ID, u128::from(at)))).map(|()| vcheck::fp(&l))
        }
        ProbeSpec::InHandler(at, back) => {
            let b = build(cfg, prog, None, Some(Probe { at, back }));
            let log = b.log.clone();
            let pr = b.probe.clone();
            let r = quiet_catch(move || b.rt.run());
            let res = pr.lock().unwrap().clone();
            let l = log.lock().unwrap().clone();
            let ts = scheduled_times(cfg.start, prog);
            let Some(rejected) = res.rejected else {
                // now - back would be negative: probe not issued; the run is a plain one
                let (_, end, _) = r.map_err(|m| format!("run panicked: {m}"))?.map_err(|e| format!("run returned an error: {e:?}"))?;
                return check_log(cfg.start, prog, &l, end.as_nanos(), None).map(|()| vcheck::fp(&l));
            };
            if back == 0 {
                if rejected {
                    return Err(format!("add_event at exactly the current time ({}ns) inside the handler of event {at} was rejected", ts[at as usize]));
                }
                let (_, end, _) = r.map_err(|m| format!("run panicked: {m}"))?.map_err(|e| format!("run returned an error: {e:?}"))?;
                return check_log(cfg.start, prog, &l, end.as_nanos(), Some((PROBE_ID, ts[at as usize]))).map(|()| vcheck::fp(&l));
            }
            if !rejected {
                let ran = l.iter().find(|e| e.0 == PROBE_ID);
                return Err(format!(
                    "add_event {back}ns before the current time ({}ns) inside the handler of event {at} was accepted{}",
                    ts[at as usize],
                    ran.map_or(String::new(), |e| format!(" and the event ran with the clock at {}ns", e.1))
                ));
            }
            if res.now_after != ts[at as usize] {
                return Err(format!("clock changed from {}ns to {}ns by a rejected add_event", ts[at as usize], res.now_after));
            }
            if l.iter().any(|e| e.0 == PROBE_ID) {
                return Err("an event whose scheduling was rejected was handled".into());
            }
            let (_, end, _) = r.map_err(|m| format!("run panicked after a rejected add: {m}"))?.map_err(|e| format!("run returned an error: {e:?}"))?;
            check_log(cfg.start, prog, &l, end.as_nanos(), None).map(|()| vcheck::fp(&l))
        }
    }
}

// ---- net level: messages injected from outside (add_message_onto / handle_message_on) -----

mod netprobe {
    use des::prelude::*;
    use std::sync::{Arc, Mutex};
    use vcheck::quiet_catch;

    type Log = Arc<Mutex<Vec<(u16, u128)>>>;
    struct Recv {
        log: Log,
    }
    impl Module for Recv {
        fn at_sim_start(&mut self, _: usize) {
            self.log.lock().unwrap().push((0, SimTime::now().as_nanos()));
            schedule_in(Message::default().kind(1), Duration::from_nanos(2));
            schedule_in(Message::default().kind(2), Duration::from_nanos(9));
        }
        fn handle_message(&mut self, m: Message) {
            self.log.lock().unwrap().push((m.header().kind, SimTime::now().as_nanos()));
        }
    }

    #[derive(Clone, Copy, Debug, PartialEq)]
    pub struct NetCase {
        pub n: usize,
        pub t: u64,
        pub start: u64,
        /// false: add_message_onto(gate); true: handle_message_on(module)
        pub direct: bool,
        /// false: inject before run; true: start, dispatch one event, inject while paused
        pub paused: bool,
        /// injection time relative to the runtime's reported time
        pub offset: i64,
    }

    pub fn run(c: NetCase) -> Result<u64, String> {
        let r = quiet_catch(move || -> Result<Vec<(u16, u128)>, String> {
            let log: Log = Default::default();
            let mut sim = Sim::new(());
            sim.node("m", Recv { log: log.clone() });
            let g = sim.gate("m", "in");
            let mut rt = Builder::seeded(1)
                .quiet()
                .cqueue_options(c.n, Duration::from_nanos(c.t))
                .start_time(SimTime::from_duration(Duration::from_nanos(c.start)))
                .build(sim.freeze());
            let m = rt.app.get(&"m".into()).ok_or("module lookup failed")?;
            if c.paused {
                rt.start();
                rt.dispatch_n_events(1);
            }
            let now = rt.sim_time().as_nanos() as i64;
            let at = now + c.offset;
            if at < 0 {
                return Ok(vec![(u16::MAX, 0)]);
            }
            let at_t = SimTime::from_duration(Duration::from_nanos(at as u64));
            let rtm = &mut rt;
            let rejected = std::panic::catch_unwind(std::panic::AssertUnwindSafe(|| {
                if c.direct {
                    rtm.handle_message_on(m.clone(), Message::default().kind(77), at_t);
                } else {
                    rtm.add_message_onto(g.clone(), Message::default().kind(77), at_t);
                }
            }))
            .is_err();
            if c.offset < 0 && !rejected {
                // show the consequence
                let _ = if c.paused {
                    rt.dispatch_all();
                    rt.finish().map(|_| ())
                } else {
                    rt.run().map(|_| ())
                };
                let l = log.lock().unwrap().clone();
                let rew = l.iter().find(|e| e.0 == 77);
                return Err(format!(
                    "a message injected at {at}ns was accepted although the simulation time is {now}ns{}",
                    rew.map_or(String::new(), |e| format!("; it was handled with the clock at {}ns", e.1))
                ));
            }
            if c.offset >= 0 && rejected {
                return Err(format!("a message injected at {at}ns (simulation time {now}ns) was rejected"));
            }
            let res = if c.paused {
                rt.dispatch_all();
                rt.finish().map(|_| ())
            } else {
                rt.run().map(|_| ())
            };
            res.map_err(|e| format!("run returned an error: {e:?}"))?;
            let l = log.lock().unwrap().clone();
            let mut exp: Vec<(u16, u128)> = vec![(0, u128::from(c.start)), (1, u128::from(c.start) + 2), (2, u128::from(c.start) + 9)];
            if c.offset >= 0 {
                exp.push((77, at as u128));
            }
            exp.sort_by_key(|e| e.1);
            let mut got = l.clone();
            got.sort_by_key(|e| e.1);
            if l.windows(2).any(|w| w[0].1 > w[1].1) {
                return Err(format!("clock went backwards: handled (kind, time) {l:?}"));
            }
            let (mut g2, mut e2) = (got.clone(), exp.clone());
            g2.sort_unstable();
            e2.sort_unstable();
            if g2 != e2 {
                return Err(format!("handled (kind, time) {l:?}, expected {exp:?}"));
            }
            Ok(l)
        });
        match r {
            Err(m) => Err(format!("panicked: {m}")),
            Ok(x) => x.map(|l| vcheck::fp(&l)),
        }
    }
}

fn case_json(cfg: RtCfg, prog: &Program, probe: ProbeSpec) -> Value {
    let p = match probe {
        ProbeSpec::None => json!(null),
        ProbeSpec::PreRun(b) => json!({"pre_run_back_ns": b}),
        ProbeSpec::InHandler(at, b) => json!({"in_handler_of": at, "back_ns": b}),
        ProbeSpec::PausedAdd(k, at) => json!({"paused_after_events": k, "add_at_ns": at}),
    };
    json!({"n": cfg.n, "t_ns": cfg.t, "start_ns": cfg.start, "program": prog.to_json(), "probe": p})
}

impl Property for C02 {
    fn id(&self) -> &'static str {
        "C02"
    }
    fn rule(&self, tier: Tier) -> String {
        format!(
            "every event program (forest) with 1..={} events (per configuration: third number), delays from {{0,1,t-1,t,t+1,Y,Y+1}}, x start time in {{0,5,Y+1}} x (n,t,max events) in {:?}, run on the real Runtime; \
             per program: one plain run + a probe add_event(now - d), d in {{0 (must be accepted), 1, t, start}}, placed before run and inside every handler; for programs of up to 3 (quick) / 4 (thorough) events also: start, dispatch_n_events(k) for every k, dispatch_events_until(start time) (must not set the clock back), add_event from outside at every time around the program's timestamps that is not in the past of the paused runtime, run to the end (clock and timestamps must stay right); \
             plus one forced two-thread schedule (a Builder::build in another thread waits for the simulation lock while a simulation is paused between two steps: the paused clock must not move, later handlers still observe their own timestamps, the visitor gets its own start time); plus 8 programs of 1200 events around 400 consecutive bucket boundaries beyond 2^24 s of simulated time (1 ns before, 1 ns after, half a bucket after each; bucket widths 0.1 s to 99.9 s; start time zero and just before the first boundary); plus, at the network level, messages injected through Runtime::add_message_onto / handle_message_on at 8 offsets around the reported time (before run and while paused, 4 start times): past ones must be rejected, the others handled at exactly their time; a case is one (program, start, config, probe placement) and all are distinct by construction; non-trivial = at least 2 events or a probe",
            tier.pick(4, 5),
            cfgs(tier)
        )
    }
    fn assumptions(&self) -> Vec<String> {
        vec![
            "delays are limited to the alphabet around bucket/year boundaries; at most 4 (quick) / 5 (thorough, small configurations) events per program".into(),
            "timestamps expected for each event are computed causally from the program (root: start+delay, child: parent+delay), no tie rule involved".into(),
        ]
    }
    fn required_features(&self, _tier: Tier) -> Vec<&'static str> {
        vec!["plain_run", "probe_past_before_run", "probe_past_in_handler", "probe_now_in_handler", "program_with_zero_delay_child", "program_spanning_a_year", "external_add_while_paused", "net_injection_into_the_past", "net_injection_at_or_after_now", "builder_waiting_in_another_thread", "program_beyond_2^24_seconds"]
    }
    fn explore(&self, ctx: &mut Ctx) {
        if ctx.is_first_shard() {
            // the one interleaving another thread can add: a builder that waits for the simulation lock
            ctx.out.evaluations += 1;
            ctx.hit("builder_waiting_in_another_thread");
            match quiet_catch(vcheck::threadlab::waiting_builder_probe) {
                Ok(Ok(o)) => ctx.outcome(o),
                Ok(Err(d)) => ctx.violation("violation", || json!({"probe": "waiting_builder"}), d),
                Err(m) => ctx.violation("violation", || json!({"probe": "waiting_builder"}), format!("panicked: {m}")),
            }
        }
        // programs far from zero: events around bucket boundaries beyond 2^24 s of simulated time
        // (1 ns is below the resolution of an f64 second count there), with start time zero and far
        for (i, (n, t)) in [(4usize, 1_100_000_000u64), (8, 99_900_000_000), (16, 100_000_000), (3, 4_900_000_000)].iter().enumerate() {
            for far_start in [false, true] {
                if !ctx.mine_key(2 * i as u64 + u64::from(far_start)) {
                    continue;
                }
                let first = ((1u64 << 24) * 1_000_000_000).div_ceil(*t) + 2;
                let start = if far_start { (first - 1) * t - 7 } else { 0 };
                let mut roots = vec![];
                let mut children = vec![];
                for k in 0..400u64 {
                    let b = (first + k) * t - start;
                    let id = roots.len() as u32;
                    roots.push((id, b + t / 2));
                    roots.push((id + 1, b + 1));
                    roots.push((id + 2, b - 1));
                    children.extend([vec![], vec![], vec![]]);
                }
                let cfg = RtCfg { n: *n, t: *t, start };
                let prog = Arc::new(Program { roots, children });
                ctx.begin(|| case_json(cfg, &prog, ProbeSpec::None));
                ctx.out.evaluations += 1;
                ctx.out.traces += 1;
                ctx.hit("program_beyond_2^24_seconds");
                match run_case(cfg, &prog, ProbeSpec::None) {
                    Ok(o) => ctx.outcome(o),
                    Err(d) => ctx.violation("violation", || case_json(cfg, &prog, ProbeSpec::None), d),
                }
            }
        }
        // net level: injections through add_message_onto / handle_message_on
        for (n, t, _) in cfgs(ctx.tier) {
            let y = n as u64 * t;
            for start in [0, 5, y + 1, 1_000] {
                for direct in [false, true] {
                    for paused in [false, true] {
                        for offset in [-(start.max(1) as i64), -(t as i64), -1, 0, 1, 3, y as i64, y as i64 + 1] {
                            if !ctx.mine() {
                                continue;
                            }
                            let c = netprobe::NetCase { n, t, start, direct, paused, offset };
                            ctx.begin(|| json!({"net_probe": format!("{c:?}"), "n": n, "t_ns": t, "start_ns": start, "direct": direct, "paused": paused, "offset_ns": offset}));
                            ctx.out.evaluations += 1;
                            ctx.out.traces += 1;
                            ctx.out.states += 1;
                            ctx.out.nontrivial += 1;
                            ctx.hit(if offset < 0 { "net_injection_into_the_past" } else { "net_injection_at_or_after_now" });
                            match netprobe::run(c) {
                                Ok(o) => ctx.outcome(o),
                                Err(d) => ctx.violation(
                                    "violation",
                                    || json!({"net_probe": format!("{c:?}"), "n": n, "t_ns": t, "start_ns": start, "direct": direct, "paused": paused, "offset_ns": offset}),
                                    d,
                                ),
                            }
                        }
                    }
                }
            }
        }
        for (n, t, maxm) in cfgs(ctx.tier) {
            let y = n as u64 * t;
            let deltas = deltas_for(n, t);
            for start in [0, 5, y + 1] {
                let cfg = RtCfg { n, t, start };
                for m in 1..=maxm {
                    let mut progs = vec![];
                    for_each_program(m, &deltas, |p| {
                        if ctx.mine() {
                            progs.push(p.clone());
                        }
                    });
                    for p in progs {
                        let zero_child = p.children.iter().flatten().any(|c| c.1 == 0);
                        let spans_year = p.children.iter().flatten().chain(p.roots.iter()).any(|c| c.1 >= y);
                        let prog = Arc::new(p);
                        let mut probes = vec![ProbeSpec::None];
                        let mut backs = vec![1, t, start.max(1)];
                        backs.sort_unstable();
                        backs.dedup();
                        for &b in &backs {
                            if start >= b {
                                probes.push(ProbeSpec::PreRun(b));
                            }
                        }
                        for at in 0..m as u32 {
                            probes.push(ProbeSpec::InHandler(at, 0));
                            for &b in &backs {
                                probes.push(ProbeSpec::InHandler(at, b));
                            }
                        }
                        // stepping: cut after k events, add an event from outside at every time around
                        // the program's timestamps that is not in the paused runtime's past
                        if m <= ctx.tier.pick(3, 4) {
                            let mut ts: Vec<u64> = scheduled_times(start, &prog).iter().map(|t| *t as u64).collect();
                            ts.sort_unstable();
                            ts.dedup();
                            let mut cands = vec![];
                            for &x in &ts {
                                cands.extend([x.saturating_sub(1), x, x + 1]);
                            }
                            cands.sort_unstable();
                            cands.dedup();
                            for k in 0..m {
                                for &c in &cands {
                                    if c >= start {
                                        probes.push(ProbeSpec::PausedAdd(k, c));
                                    }
                                }
                            }
                        }
                        for pr in probes {
                            ctx.out.evaluations += 1;
                            ctx.out.traces += 1;
                            ctx.out.transitions += m as u64;
                            ctx.out.states += 1;
                            if m >= 2 || pr != ProbeSpec::None {
                                ctx.out.nontrivial += 1;
                            }
                            match pr {
                                ProbeSpec::None => ctx.hit("plain_run"),
                                ProbeSpec::PreRun(_) => ctx.hit("probe_past_before_run"),
                                ProbeSpec::InHandler(_, 0) => ctx.hit("probe_now_in_handler"),
                                ProbeSpec::InHandler(..) => ctx.hit("probe_past_in_handler"),
                                ProbeSpec::PausedAdd(..) => ctx.hit("external_add_while_paused"),
                            }
                            if zero_child {
                                ctx.hit("program_with_zero_delay_child");
                            }
                            if spans_year {
                                ctx.hit("program_spanning_a_year");
                            }
                            ctx.begin(|| case_json(cfg, &prog, pr));
                            match run_case(cfg, &prog, pr) {
                                Ok(o) => {
                                    ctx.outcome(o);
                                    if m == 3 && matches!(pr, ProbeSpec::InHandler(1, 1)) {
                                        ctx.sample(|| case_json(cfg, &prog, pr));
                                    }
                                }
                                Err(d) => ctx.violation("violation", || case_json(cfg, &prog, pr), d),
                            }
                        }
                    }
                }
            }
        }
    }
    fn replay(&self, case: &Value) -> Result<(), String> {
        if case.get("probe").and_then(Value::as_str) == Some("waiting_builder") {
            return quiet_catch(vcheck::threadlab::waiting_builder_probe).map_err(|m| format!("panicked: {m}"))?.map(|_| ());
        }
        if case.get("net_probe").is_some() {
            return netprobe::run(netprobe::NetCase {
                n: case["n"].as_u64().unwrap() as usize,
                t: case["t_ns"].as_u64().unwrap(),
                start: case["start_ns"].as_u64().unwrap(),
                direct: case["direct"].as_bool().unwrap(),
                paused: case["paused"].as_bool().unwrap(),
                offset: case["offset_ns"].as_i64().unwrap(),
            })
            .map(|_| ());
        }
        let cfg = RtCfg { n: case["n"].as_u64().unwrap() as usize, t: case["t_ns"].as_u64().unwrap(), start: case["start_ns"].as_u64().unwrap() };
        let prog = Arc::new(Program::from_json(&case["program"]));
        let p = &case["probe"];
        let probe = if p.is_null() {
            ProbeSpec::None
        } else if let Some(k) = p.get("paused_after_events") {
            ProbeSpec::PausedAdd(k.as_u64().unwrap() as usize, p["add_at_ns"].as_u64().unwrap())
        } else if let Some(b) = p.get("pre_run_back_ns") {
            ProbeSpec::PreRun(b.as_u64().unwrap())
        } else {
            ProbeSpec::InHandler(p["in_handler_of"].as_u64().unwrap() as u32, p["back_ns"].as_u64().unwrap())
        };
        run_case(cfg, &prog, probe).map(|_| ())
    }
}

fn main() {
    run_property(&C02);
}
