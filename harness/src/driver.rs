//! Driver: tiering, sharding over worker processes, merging, vacuity guards,
//! known findings, replays, evidence.

use serde::{Deserialize, Serialize};
use serde_json::{json, Value};
use std::collections::{BTreeMap, BTreeSet};
use std::io::Read;
use std::path::PathBuf;
use std::process::{Command, Stdio};
use std::sync::atomic::{AtomicU64, Ordering};
use std::time::{Duration, Instant};

#[derive(Clone, Copy, Debug, PartialEq, Eq)]
pub enum Tier {
    Quick,
    Thorough,
}
impl Tier {
    pub fn name(self) -> &'static str {
        match self {
            Tier::Quick => "quick",
            Tier::Thorough => "thorough",
        }
    }
    pub fn pick<T>(self, quick: T, thorough: T) -> T {
        match self {
            Tier::Quick => quick,
            Tier::Thorough => thorough,
        }
    }
}

pub const MAX_VIOL_PER_CLASS: usize = 4;
const MAX_OUTCOMES: usize = 1 << 18;

#[derive(Serialize, Deserialize, Default, Debug, Clone)]
pub struct Viol {
    pub class: String,
    pub case: Value,
    pub detail: String,
    /// worker that recorded it (filled in by the driver)
    #[serde(default)]
    pub shard: Option<u64>,
}

/// What one worker measured.
#[derive(Serialize, Deserialize, Default, Debug)]
pub struct Out {
    pub evaluations: u64,
    pub nontrivial: u64,
    pub states: u64,
    pub transitions: u64,
    pub traces: u64,
    pub features: BTreeMap<String, u64>,
    pub outcomes: BTreeSet<u64>,
    pub outcomes_capped: bool,
    pub viol_counts: BTreeMap<String, u64>,
    pub viols: Vec<Viol>,
    pub samples: Vec<Value>,
    pub capped: Vec<String>,
    pub extra: BTreeMap<String, Value>,
}

pub struct Ctx {
    pub tier: Tier,
    pub shard: u64,
    pub nshards: u64,
    pub seed: u64,
    pub out: Out,
    counter: u64,
    case_no: u64,
    stop_at: Option<u64>,
    /// descriptions of the first cases of this worker (replay self-check)
    first_cases: Vec<Value>,
    pub started: Instant,
}

/// progress heartbeat watched by the stall watchdog of a worker
static PROGRESS: AtomicU64 = AtomicU64::new(0);
/// number of the case (per worker, in enumeration order) being executed
static CASE_NO: AtomicU64 = AtomicU64::new(0);

impl Ctx {
    pub fn new(tier: Tier, shard: u64, nshards: u64, seed: u64) -> Self {
        let stop_at = std::env::var("VERIF_STOP_AT").ok().and_then(|s| s.parse().ok());
        Ctx { tier, shard, nshards, seed, out: Out::default(), counter: 0, case_no: 0, stop_at, first_cases: vec![], started: Instant::now() }
    }
    /// Marks the start of one executed case. The description is only built when this worker
    /// was asked (after a stall) to name the case with this number.
    #[inline]
    pub fn begin(&mut self, describe: impl FnOnce() -> Value) {
        self.case_no += 1;
        CASE_NO.store(self.case_no, Ordering::Relaxed);
        PROGRESS.fetch_add(1, Ordering::Relaxed);
        if self.stop_at == Some(self.case_no) {
            use std::io::Write;
            println!("HANGCASE {}", describe());
            let _ = std::io::stdout().flush();
        } else if self.case_no <= 3 && self.shard == 0 {
            self.first_cases.push(describe());
        }
    }
    #[inline]
    pub fn tick(&self) {
        PROGRESS.fetch_add(1, Ordering::Relaxed);
    }
    /// Round-robin ownership of enumerated cases: call once per case of the (deterministic)
    /// enumeration; true iff this worker executes it.
    #[inline]
    pub fn mine(&mut self) -> bool {
        PROGRESS.fetch_add(1, Ordering::Relaxed);
        let c = self.counter;
        self.counter += 1;
        c % self.nshards == self.shard
    }
    /// Ownership by explicit key (e.g. configuration index).
    #[inline]
    pub fn mine_key(&self, key: u64) -> bool {
        key % self.nshards == self.shard
    }
    #[inline]
    pub fn hit(&mut self, feature: &str) {
        self.hit_n(feature, 1);
    }
    pub fn hit_n(&mut self, feature: &str, n: u64) {
        if let Some(v) = self.out.features.get_mut(feature) {
            *v += n;
        } else {
            self.out.features.insert(feature.to_string(), n);
        }
    }
    #[inline]
    pub fn outcome(&mut self, fingerprint: u64) {
        if self.out.outcomes.len() < MAX_OUTCOMES {
            self.out.outcomes.insert(fingerprint);
        } else if !self.out.outcomes.contains(&fingerprint) {
            self.out.outcomes_capped = true;
        }
    }
    pub fn violation(&mut self, class: &str, case: impl FnOnce() -> Value, detail: String) {
        let n = self.out.viol_counts.entry(class.to_string()).or_insert(0);
        *n += 1;
        if (*n as usize) <= MAX_VIOL_PER_CLASS {
            self.out.viols.push(Viol { class: class.to_string(), case: case(), detail, shard: None });
        }
    }
    pub fn sample(&mut self, v: impl FnOnce() -> Value) {
        if self.out.samples.len() < 2 {
            self.out.samples.push(v());
        }
    }
    pub fn is_first_shard(&self) -> bool {
        self.shard == 0
    }
}

pub trait Property {
    fn id(&self) -> &'static str;
    /// evidence level category
    fn level(&self) -> &'static str {
        "model_checking"
    }
    /// how cases are enumerated and what makes one non-trivial / distinct
    fn rule(&self, tier: Tier) -> String;
    fn assumptions(&self) -> Vec<String>;
    /// features that must have been hit at least once, else the run is vacuous (machinery error)
    fn required_features(&self, tier: Tier) -> Vec<&'static str>;
    fn explore(&self, ctx: &mut Ctx);
    /// Re-executes one recorded case without the explorer. `Err(detail)` iff it still violates.
    fn replay(&self, case: &Value) -> Result<(), String>;
    fn shards(&self, _tier: Tier) -> u64 {
        16
    }
    /// true: a worker killed by a signal (segfault/abort inside the subject) is a violation
    /// of this property (memory safety claims); false: machinery error.
    fn crash_is_violation(&self) -> bool {
        false
    }
    /// classes of failing cases (derived from the *case*, not from the failure) that are
    /// documented findings; everything else is a violation.
    fn finding_classes(&self) -> Vec<&'static str> {
        vec![]
    }
    /// optional extra work done once in the driver process after the workers finished
    /// (e.g. cross-process comparisons). Returns extra evidence keys.
    fn post(&self, _tier: Tier, _merged: &mut Out) {}
}

pub fn verif_root() -> PathBuf {
    if let Ok(p) = std::env::var("VERIF_ROOT") {
        return PathBuf::from(p);
    }
    PathBuf::from(env!("CARGO_MANIFEST_DIR")).parent().unwrap().to_path_buf()
}

fn seed_from_env() -> u64 {
    std::env::var("VERIF_SEED").ok().and_then(|s| s.trim().parse::<i64>().ok()).map_or(0, |v| v as u64)
}

fn machinery(msg: &str) -> ! {
    eprintln!("MACHINERY-ERROR: {msg}");
    println!("MACHINERY-ERROR: {msg}");
    std::process::exit(2);
}

#[derive(Deserialize, Default)]
struct KnownFile {
    #[serde(default)]
    findings: Vec<KnownEntry>,
    #[serde(default)]
    #[allow(dead_code)]
    fixed: Vec<Value>,
}
#[derive(Deserialize)]
struct KnownEntry {
    property: String,
    class: String,
    what: String,
}

pub fn run_property(p: &dyn Property) -> ! {
    let args: Vec<String> = std::env::args().skip(1).collect();
    let a: Vec<&str> = args.iter().map(String::as_str).collect();
    match a.as_slice() {
        ["--worker", tier, shard, n] => worker(p, parse_tier(tier), shard.parse().unwrap(), n.parse().unwrap()),
        ["--replay", path] => replay(p, path),
        [tier] => drive(p, parse_tier(tier)),
        [] => {
            let t = std::env::var("VERIF_TIER").unwrap_or_else(|_| "quick".into());
            drive(p, parse_tier(&t))
        }
        _ => machinery("usage: <bin> quick|thorough | --replay <file>"),
    }
}

fn parse_tier(s: &str) -> Tier {
    match s {
        "quick" => Tier::Quick,
        "thorough" => Tier::Thorough,
        _ => machinery("tier must be quick or thorough"),
    }
}

fn stall_limit(tier: Tier) -> u64 {
    std::env::var("VERIF_STALL_S").ok().and_then(|s| s.parse().ok()).unwrap_or(tier.pick(30, 120))
}

fn limit_memory() {
    // an exploding subject must fail by allocation error inside its own process, not by the
    // kernel's OOM killer taking the sandbox down
    let gib: u64 = std::env::var("VERIF_WORKER_MEM_GIB").ok().and_then(|s| s.parse().ok()).unwrap_or(3);
    let lim = libc::rlimit { rlim_cur: gib << 30, rlim_max: gib << 30 };
    unsafe {
        libc::setrlimit(libc::RLIMIT_AS, &lim);
    }
}

fn spawn_watchdog(limit_s: u64, on_stall: impl Fn(u64) + Send + 'static) {
    std::thread::spawn(move || {
        let mut last = PROGRESS.load(Ordering::Relaxed);
        let mut since = Instant::now();
        loop {
            std::thread::sleep(Duration::from_millis(250));
            let now = PROGRESS.load(Ordering::Relaxed);
            if now != last {
                last = now;
                since = Instant::now();
            } else if since.elapsed().as_secs() >= limit_s {
                on_stall(CASE_NO.load(Ordering::Relaxed));
            }
        }
    });
}

fn worker(p: &dyn Property, tier: Tier, shard: u64, n: u64) -> ! {
    crate::lab::silence_panics();
    limit_memory();
    let lim = stall_limit(tier);
    spawn_watchdog(lim, move |case_no| {
        use std::io::Write;
        println!("STALL {case_no}");
        let _ = std::io::stdout().flush();
        std::process::exit(3);
    });
    let mut ctx = Ctx::new(tier, shard, n, seed_from_env());
    // a panic that escapes the exploration (the subject panicking outside the places where the
    // property's own oracle catches panics, or returning something the harness cannot continue
    // with) is reported with the case in which it happened
    if let Err(e) = std::panic::catch_unwind(std::panic::AssertUnwindSafe(|| p.explore(&mut ctx))) {
        use std::io::Write;
        let msg = e.downcast_ref::<String>().cloned().or_else(|| e.downcast_ref::<&str>().map(|s| s.to_string())).unwrap_or_default();
        println!("PANICKED {} {}", CASE_NO.load(Ordering::Relaxed), msg.replace('\n', " "));
        let _ = std::io::stdout().flush();
        std::process::exit(4);
    }
    // self-check of the replay path: the first cases of worker 0 held during the exploration, so
    // re-executing their recorded descriptions alone must hold as well (this exercises the
    // encode -> decode -> execute path that a reported violation relies on, on every run)
    {
        let cases = std::mem::take(&mut ctx.first_cases);
        let only_findings = ctx.out.viol_counts.keys().all(|k| p.finding_classes().iter().any(|f| f == k));
        for c in cases {
            if !only_findings || ctx.out.viols.iter().any(|v| v.case == c) {
                continue;
            }
            let r = std::panic::catch_unwind(std::panic::AssertUnwindSafe(|| p.replay(&c)));
            match r {
                Ok(Ok(())) => ctx.hit_n("replay_selfcheck_cases", 1),
                Ok(Err(e)) => ctx.out.capped.push(format!("MACHINERY: replay self-check: a case that held during exploration fails when replayed: {c} :: {e}")),
                Err(_) => ctx.out.capped.push(format!("MACHINERY: replay self-check: replaying {c} panicked")),
            }
        }
    }
    let s = serde_json::to_string(&ctx.out).expect("serialise worker result");
    println!("RESULT {s}");
    std::process::exit(0);
}

fn replay(p: &dyn Property, path: &str) -> ! {
    let txt = std::fs::read_to_string(path).unwrap_or_else(|e| machinery(&format!("cannot read {path}: {e}")));
    let v: Value = serde_json::from_str(&txt).unwrap_or_else(|e| machinery(&format!("bad replay file: {e}")));
    let case = v.get("case").cloned().unwrap_or(v.clone());
    spawn_watchdog(stall_limit(Tier::Quick), {
        let path = path.to_string();
        let id = p.id();
        move |_| {
            println!("VIOLATION property={id} replay={path}");
            println!("detail: the subject did not terminate on this case");
            std::process::exit(1);
        }
    });
    if let Some(sh) = case.get("violating_shard") {
        let tier = case.get("tier").and_then(Value::as_str).unwrap_or("quick").to_string();
        let n = case.get("nshards").and_then(Value::as_u64).unwrap_or(16);
        let class = case.get("class").and_then(Value::as_str).unwrap_or("violation").to_string();
        let o = Command::new(std::env::current_exe().unwrap()).args(["--worker", &tier, &sh.to_string(), &n.to_string()]).stderr(Stdio::null()).output().unwrap();
        let b = String::from_utf8_lossy(&o.stdout).to_string();
        let out = b.lines().rev().find(|l| l.starts_with("RESULT ")).and_then(|l| serde_json::from_str::<Out>(&l[7..]).ok());
        if out.is_some_and(|o| o.viol_counts.get(&class).copied().unwrap_or(0) > 0) {
            println!("VIOLATION property={} replay={path}", p.id());
            println!("detail: worker shard {sh} reports failing cases of class '{class}' again");
            std::process::exit(1);
        }
        println!("replay: shard {sh} no longer reports a failing case of class '{class}'");
        std::process::exit(0);
    }
    if let Some(sh) = case.get("crashed_shard").or(case.get("stalled_shard")).or(case.get("panicked_shard")) {
        // re-run the crashed shard in a subprocess
        let tier = case.get("tier").and_then(Value::as_str).unwrap_or("quick").to_string();
        let n = case.get("nshards").and_then(Value::as_u64).unwrap_or(16);
        let st = Command::new(std::env::current_exe().unwrap())
            .args(["--worker", &tier, &sh.to_string(), &n.to_string()])
            .stdout(Stdio::null())
            .stderr(Stdio::null())
            .status()
            .unwrap();
        if st.code().is_none() || st.code() == Some(3) || st.code() == Some(4) {
            println!("VIOLATION property={} replay={path}", p.id());
            println!("detail: worker shard {sh} died from a signal, stalled or panicked again: {st}");
            std::process::exit(1);
        }
        println!("replay: shard {sh} did not crash");
        std::process::exit(0);
    }
    match p.replay(&case) {
        Ok(()) => {
            println!("replay: case no longer violates property {}", p.id());
            std::process::exit(0);
        }
        Err(d) => {
            println!("VIOLATION property={} replay={path}", p.id());
            println!("detail: {d}");
            std::process::exit(1);
        }
    }
}

fn drive(p: &dyn Property, tier: Tier) -> ! {
    let t0 = Instant::now();
    let id = p.id();
    let root = verif_root();
    let ev_path = root.join("evidence").join(format!("{id}.json"));
    let _ = std::fs::create_dir_all(root.join("evidence"));
    let _ = std::fs::remove_file(&ev_path);
    let nshards = std::env::var("VERIF_SHARDS").ok().and_then(|s| s.parse().ok()).unwrap_or_else(|| p.shards(tier));
    let exe = std::env::current_exe().unwrap();
    let logdir = root.join("harness").join("target").join("logs");
    let _ = std::fs::create_dir_all(&logdir);
    let limit = Duration::from_secs(
        std::env::var("VERIF_WALL_CAP_S").ok().and_then(|s| s.parse().ok()).unwrap_or(tier.pick(20 * 60, 8 * 3600)),
    );

    let mut children = vec![];
    for s in 0..nshards {
        let errf = std::fs::File::create(logdir.join(format!("{id}-{s}.err"))).unwrap();
        let ch = Command::new(&exe)
            .args(["--worker", tier.name(), &s.to_string(), &nshards.to_string()])
            .stdin(Stdio::null())
            .stdout(Stdio::piped())
            .stderr(errf)
            .spawn()
            .unwrap_or_else(|e| machinery(&format!("cannot spawn worker: {e}")));
        children.push((s, ch));
    }
    // read stdout of each worker in a thread (avoids pipe back-pressure)
    let mut readers = vec![];
    for (s, ch) in &mut children {
        let mut so = ch.stdout.take().unwrap();
        let s = *s;
        readers.push(std::thread::spawn(move || {
            let mut buf = String::new();
            let _ = so.read_to_string(&mut buf);
            (s, buf)
        }));
    }
    let mut crashed: Vec<(u64, String)> = vec![];
    let mut stalled: Vec<u64> = vec![];
    let mut panicked: Vec<u64> = vec![];
    let mut failed: Vec<String> = vec![];
    for (s, ch) in &mut children {
        loop {
            match ch.try_wait() {
                Ok(Some(st)) => {
                    if st.code().is_none() {
                        crashed.push((*s, format!("{st}")));
                    } else if st.code() == Some(3) {
                        stalled.push(*s);
                    } else if st.code() == Some(4) {
                        panicked.push(*s);
                    } else if !st.success() {
                        failed.push(format!("worker {s} exited with {st}"));
                    }
                    break;
                }
                Ok(None) => {
                    if t0.elapsed() > limit {
                        let _ = ch.kill();
                        let _ = ch.wait();
                        failed.push(format!("worker {s} exceeded the wall cap of {}s and was stopped", limit.as_secs()));
                        break;
                    }
                    std::thread::sleep(Duration::from_millis(20));
                }
                Err(e) => {
                    failed.push(format!("wait on worker {s}: {e}"));
                    break;
                }
            }
        }
    }
    let mut merged = Out::default();
    let mut stall_viols: Vec<Viol> = vec![];
    for r in readers {
        let (s, buf) = r.join().unwrap();
        if crashed.iter().any(|c| c.0 == s) {
            continue;
        }
        if panicked.contains(&s) {
            let line = buf.lines().rev().find_map(|l| l.strip_prefix("PANICKED ")).unwrap_or("0 ").to_string();
            let (no, msg) = line.split_once(' ').unwrap_or((&line, ""));
            let case_no: u64 = no.parse().unwrap_or(0);
            let mut case = json!({"panicked_shard": s, "nshards": nshards, "tier": tier.name(), "case_no": case_no});
            if case_no > 0 && !stall_viols.iter().any(|v| v.class == "subject-panic") {
                // a fresh worker names that case; it has to panic at the same case again
                let o = Command::new(&exe)
                    .args(["--worker", tier.name(), &s.to_string(), &nshards.to_string()])
                    .env("VERIF_STOP_AT", case_no.to_string())
                    .stdin(Stdio::null())
                    .stderr(Stdio::null())
                    .output();
                match o {
                    Ok(o) if o.status.code() == Some(4) => {
                        let b = String::from_utf8_lossy(&o.stdout).to_string();
                        let again = b.lines().rev().find_map(|l| l.strip_prefix("PANICKED ")).and_then(|l| l.split(' ').next()).and_then(|x| x.parse::<u64>().ok());
                        if again != Some(case_no) {
                            failed.push(format!("worker {s} panicked in case #{case_no}, then in case #{again:?} when run again"));
                        }
                        if let Some(j) = b.lines().find_map(|l| l.strip_prefix("HANGCASE ")) {
                            if let Ok(v) = serde_json::from_str::<Value>(j) {
                                case["case"] = v;
                            }
                        }
                    }
                    Ok(o) => failed.push(format!("worker {s} panicked in case #{case_no} but not when run again ({})", o.status)),
                    Err(e) => failed.push(format!("cannot re-run worker {s}: {e}")),
                }
            }
            stall_viols.push(Viol {
                class: "subject-panic".into(),
                case,
                detail: format!("a panic escaped in case #{case_no} of worker {s}/{nshards}: {}", msg.chars().take(300).collect::<String>()),
                shard: Some(s),
            });
            continue;
        }
        if stalled.contains(&s) {
            let case_no: u64 = buf.lines().rev().find_map(|l| l.strip_prefix("STALL ")).and_then(|x| x.trim().parse().ok()).unwrap_or(0);
            let lim = stall_limit(tier);
            // ask a fresh worker to name that case (it will stall again; it is stopped afterwards)
            let mut case = json!({"stalled_shard": s, "nshards": nshards, "tier": tier.name(), "case_no": case_no});
            if case_no > 0 && stall_viols.is_empty() {
                if let Ok(mut ch) = Command::new(&exe)
                    .args(["--worker", tier.name(), &s.to_string(), &nshards.to_string()])
                    .env("VERIF_STOP_AT", case_no.to_string())
                    .env("VERIF_STALL_S", "5")
                    .stdin(Stdio::null())
                    .stdout(Stdio::piped())
                    .stderr(Stdio::null())
                    .spawn()
                {
                    let mut so = ch.stdout.take().unwrap();
                    let h = std::thread::spawn(move || {
                        let mut b = String::new();
                        let _ = so.read_to_string(&mut b);
                        b
                    });
                    let t1 = Instant::now();
                    while ch.try_wait().ok().flatten().is_none() && t1.elapsed() < Duration::from_secs(lim + 20) {
                        std::thread::sleep(Duration::from_millis(50));
                    }
                    let _ = ch.kill();
                    let _ = ch.wait();
                    if let Ok(b) = h.join() {
                        if let Some(j) = b.lines().find_map(|l| l.strip_prefix("HANGCASE ")) {
                            if let Ok(v) = serde_json::from_str::<Value>(j) {
                                case = v;
                            }
                        }
                    }
                }
            }
            stall_viols.push(Viol {
                class: "subject-hang".into(),
                case,
                detail: format!("the subject did not terminate (no progress for {lim}s) on case #{case_no} of worker {s}/{nshards}"),
                shard: Some(s),
            });
            continue;
        }
        let Some(line) = buf.lines().rev().find(|l| l.starts_with("RESULT ")) else {
            failed.push(format!("worker {s} produced no result (see {}/{id}-{s}.err)", logdir.display()));
            continue;
        };
        match serde_json::from_str::<Out>(&line[7..]) {
            Ok(mut o) => {
                for v in &mut o.viols {
                    v.shard = Some(s);
                }
                merge(&mut merged, o)
            }
            Err(e) => failed.push(format!("worker {s}: unparsable result: {e}")),
        }
    }
    if !crashed.is_empty() && !p.crash_is_violation() {
        for (s, st) in &crashed {
            failed.push(format!("worker {s} died: {st} (see {}/{id}-{s}.err)", logdir.display()));
        }
    }
    if !failed.is_empty() {
        machinery(&failed.join("; "));
    }
    if p.crash_is_violation() {
        for (s, st) in &crashed {
            *merged.viol_counts.entry("subject-crash".into()).or_insert(0) += 1;
            merged.viols.push(Viol {
                class: "subject-crash".into(),
                case: json!({"crashed_shard": s, "nshards": nshards, "tier": tier.name()}),
                detail: format!("worker process running the subject died from a signal: {st}"),
                shard: Some(*s),
            });
        }
    }
    for v in stall_viols {
        *merged.viol_counts.entry(v.class.clone()).or_insert(0) += 1;
        merged.viols.push(v);
    }
    p.post(tier, &mut merged);
    let mach: Vec<&String> = merged.capped.iter().filter(|c| c.starts_with("MACHINERY:")).collect();
    if !mach.is_empty() {
        machinery(&format!("{mach:?}"));
    }

    // vacuity guards
    let mut missing = vec![];
    for f in p.required_features(tier) {
        if merged.features.get(f).copied().unwrap_or(0) == 0 {
            missing.push(f);
        }
    }
    let no_viol = merged.viol_counts.values().all(|v| *v == 0);
    if !missing.is_empty() && no_viol {
        machinery(&format!("vacuous run: features never exercised: {missing:?}"));
    }
    if merged.evaluations == 0 && no_viol {
        machinery("vacuous run: no case was executed");
    }

    // classify
    let known: KnownFile = std::fs::read_to_string(root.join("KNOWN_FINDINGS.json"))
        .ok()
        .and_then(|s| serde_json::from_str(&s).ok())
        .unwrap_or_default();
    let allowed = p.finding_classes();
    let mut known_lines = vec![];
    let mut shard_viols: Vec<Viol> = vec![];
    let mut violations: Vec<&Viol> = vec![];
    let mut n_viol = 0u64;
    let mut n_known = 0u64;
    for (class, cnt) in &merged.viol_counts {
        let entry = known
            .findings
            .iter()
            .find(|k| k.property == id && &k.class == class && allowed.iter().any(|a| a == class));
        if let Some(k) = entry {
            n_known += cnt;
            known_lines.push(format!("KNOWN-FINDING: property={id} {} [class {class}; {cnt} failing case(s) in this run]", k.what));
        } else {
            n_viol += cnt;
            violations.extend(merged.viols.iter().filter(|v| &v.class == class));
        }
    }
    let _ = std::fs::create_dir_all(root.join("replays"));
    let mut viol_lines = vec![];
    let mut seen_class = BTreeSet::new();
    violations.sort_by_key(|v| v.case.to_string().len());
    // a reported case must fail again when re-executed alone in this (fresh) process; a failure
    // that does not reproduce points at state leaking between cases of a worker (possibly caused
    // by an earlier, genuinely failing case). Per class the smallest *reproducing* case is
    // reported; if none of the recorded cases reproduces, that is a machinery error, never a verdict.
    {
        let mut classes: Vec<String> = violations.iter().map(|v| v.class.clone()).collect();
        classes.sort();
        classes.dedup();
        let mut keep: Vec<&Viol> = vec![];
        for c in classes {
            let cands: Vec<&Viol> = violations.iter().copied().filter(|v| v.class == c).collect();
            if c == "subject-crash" || c == "subject-hang" || c == "subject-panic" {
                // the one whose case could be named carries the longest description
                keep.push(cands.iter().copied().max_by_key(|v| v.case.to_string().len()).unwrap());
                continue;
            }
            let mut found = None;
            for v in cands.iter().take(24) {
                if v.case.get("cross_process").is_some() {
                    found = Some(*v);
                    break;
                }
                let r = std::panic::catch_unwind(std::panic::AssertUnwindSafe(|| p.replay(&v.case)));
                if !matches!(r, Ok(Ok(()))) {
                    found = Some(*v);
                    break;
                }
            }
            if found.is_none() {
                // The failure needs what earlier cases of its worker left behind in the process
                // (state of the subject that outlives a case). Re-run that worker: if it fails
                // again in the same class, the shard is the replayable artefact.
                if let Some(sh) = cands[0].shard {
                    let o = Command::new(&exe)
                        .args(["--worker", tier.name(), &sh.to_string(), &nshards.to_string()])
                        .stdin(Stdio::null())
                        .stderr(Stdio::null())
                        .output();
                    let again = o.ok().and_then(|o| {
                        let b = String::from_utf8_lossy(&o.stdout).to_string();
                        b.lines().rev().find(|l| l.starts_with("RESULT ")).and_then(|l| serde_json::from_str::<Out>(&l[7..]).ok())
                    });
                    if again.is_some_and(|o| o.viol_counts.get(&c).copied().unwrap_or(0) > 0) {
                        shard_viols.push(Viol {
                            class: c.clone(),
                            case: json!({"violating_shard": sh, "nshards": nshards, "tier": tier.name(), "class": c, "first_case": cands[0].case}),
                            detail: format!("(fails only after the cases that precede it in its worker, i.e. through state of the subject that outlives a case) {}", cands[0].detail),
                            shard: Some(sh),
                        });
                        continue;
                    }
                }
            }
            match found {
                Some(v) => keep.push(v),
                None => machinery(&format!(
                    "none of the recorded failing cases of class '{c}' failed again when replayed alone; first: {} :: {}",
                    cands[0].case.to_string().chars().take(300).collect::<String>(),
                    cands[0].detail.chars().take(300).collect::<String>()
                )),
            }
        }
        violations = keep;
    }
    let shard_viols = shard_viols;
    violations.extend(shard_viols.iter());
    for v in &violations {
        // one replay file per class (the first = smallest in enumeration order per worker)
        if !seen_class.insert(v.class.clone()) {
            continue;
        }
        let body = json!({"property": id, "class": v.class, "detail": v.detail, "case": v.case});
        let name = format!("{id}-{:016x}.json", crate::fp(&body.to_string()));
        let path = root.join("replays").join(name);
        let _ = std::fs::write(&path, serde_json::to_string_pretty(&body).unwrap());
        viol_lines.push(format!("VIOLATION property={id} replay={}", path.display()));
        viol_lines.push(format!("  detail[{}]: {}", v.class, v.detail));
    }

    let wall = t0.elapsed().as_secs_f64();
    let mut samples = merged.samples.clone();
    samples.truncate(5);
    if samples.is_empty() {
        samples.push(json!("no sample recorded"));
    }
    let exhaustive = merged.capped.is_empty();
    let mut coverage = json!({
        "evaluations": merged.evaluations,
        "distinct_nontrivial": merged.nontrivial,
        "rule": p.rule(tier),
        "samples": samples,
        "states": merged.states.max(1),
        "transitions": merged.transitions.max(1),
        "traces_validated_against_impl": merged.traces,
        "exhaustive": exhaustive,
        "distinct_outcomes": merged.outcomes.len(),
        "distinct_outcomes_is_lower_bound": merged.outcomes_capped,
        "features_hit": merged.features,
        "worker_processes": nshards,
        "caps_hit": merged.capped,
        "known_finding_cases": n_known,
        "repo_source_hash": std::env::var("VERIF_REPO_HASH").unwrap_or_default(),
    });
    for (k, v) in &merged.extra {
        coverage[k] = v.clone();
    }
    let evidence = json!({
        "property_id": id,
        "tier": tier.name(),
        "seed": seed_from_env() as i64,
        "level": p.level(),
        "coverage": coverage,
        "assumptions": p.assumptions(),
        "wall_s": wall,
        "violations": n_viol,
    });
    std::fs::write(&ev_path, serde_json::to_string_pretty(&evidence).unwrap())
        .unwrap_or_else(|e| machinery(&format!("cannot write evidence: {e}")));

    println!(
        "{id} {}: evaluations={} states={} transitions={} traces_validated={} distinct_outcomes={} nontrivial={} violations={} known_finding_cases={} wall={:.1}s",
        tier.name(),
        merged.evaluations,
        merged.states,
        merged.transitions,
        merged.traces,
        merged.outcomes.len(),
        merged.nontrivial,
        n_viol,
        n_known,
        wall
    );
    let feats: Vec<String> = merged.features.iter().map(|(k, v)| format!("{k}={v}")).collect();
    println!("  features: {}", feats.join(" "));
    for l in &known_lines {
        println!("{l}");
    }
    for l in &viol_lines {
        println!("{l}");
    }
    std::process::exit(if n_viol > 0 { 1 } else { 0 });
}

fn merge(m: &mut Out, o: Out) {
    m.evaluations += o.evaluations;
    m.nontrivial += o.nontrivial;
    m.states += o.states;
    m.transitions += o.transitions;
    m.traces += o.traces;
    for (k, v) in o.features {
        *m.features.entry(k).or_insert(0) += v;
    }
    m.outcomes_capped |= o.outcomes_capped;
    for x in o.outcomes {
        if m.outcomes.len() < (1 << 22) {
            m.outcomes.insert(x);
        } else {
            m.outcomes_capped = true;
        }
    }
    for (k, v) in o.viol_counts {
        *m.viol_counts.entry(k).or_insert(0) += v;
    }
    m.viols.extend(o.viols);
    if m.samples.len() < 6 {
        m.samples.extend(o.samples);
    }
    m.capped.extend(o.capped);
    for (k, v) in o.extra {
        // numeric extras are summed, others: first wins
        match (m.extra.get(&k).and_then(Value::as_u64), v.as_u64()) {
            (Some(a), Some(b)) => {
                m.extra.insert(k, json!(a + b));
            }
            (None, _) if !m.extra.contains_key(&k) => {
                m.extra.insert(k, v);
            }
            _ => {}
        }
    }
}
