//! A second builder waiting for the simulation lock in another thread.
//!
//! One runtime per process may exist at a time; `Builder::build` called while a runtime is alive
//! blocks until that runtime is gone. The only interleaving another thread can add to a
//! simulation is therefore "a builder arrives and waits": this probe forces exactly that
//! schedule (the running simulation is paused between two steps, the other thread is given
//! time to reach the lock) and checks that the paused simulation's clock and random stream are
//! what they are without the visitor, and that the visitor's runtime gets its own start time.

use des::prelude::*;
use std::sync::{Arc, Mutex};
use std::time::Duration as StdDuration;

type Obs = Arc<Mutex<Vec<(u32, u128, u64)>>>;

struct PApp {
    obs: Obs,
}
impl Application for PApp {
    type EventSet = PEv;
    type Lifecycle = ();
}
#[derive(Debug)]
struct PEv(u32);
impl Event<PApp> for PEv {
    fn handle(self, rt: &mut Runtime<PApp>) {
        let r: u64 = des::runtime::random();
        rt.app.obs.lock().unwrap().push((self.0, SimTime::now().as_nanos(), r));
        if self.0 < 6 {
            // valid: one nanosecond after the running event
            rt.add_event_in(PEv(self.0 + 1), Duration::from_nanos(1));
        }
    }
}

fn run_once(visitor: bool) -> Result<(Vec<(u32, u128, u64)>, Option<u128>), String> {
    let obs: Obs = Default::default();
    let mut rt = Builder::seeded(77).quiet().start_time(SimTime::from_duration(Duration::from_nanos(5))).build(PApp { obs: obs.clone() });
    rt.add_event(PEv(0), SimTime::from_duration(Duration::from_nanos(6)));
    rt.start();
    rt.dispatch_n_events(2);
    let before = (SimTime::now().as_nanos(), rt.sim_time().as_nanos());
    let seen: Arc<Mutex<Option<u128>>> = Default::default();
    let handle = if visitor {
        let seen = seen.clone();
        let h = std::thread::spawn(move || {
            crate::lab::silence_panics();
            let rt2 = Builder::seeded(4242).quiet().start_time(SimTime::from_duration(Duration::from_nanos(1000))).build(|| ());
            *seen.lock().unwrap() = Some(rt2.sim_time().as_nanos());
            drop(rt2);
        });
        // the visitor either blocks on the lock or has not got that far; both are fine for soundness
        std::thread::sleep(StdDuration::from_millis(250));
        Some(h)
    } else {
        None
    };
    let after = (SimTime::now().as_nanos(), rt.sim_time().as_nanos());
    if before != after {
        drop(rt);
        if let Some(h) = handle {
            let _ = h.join();
        }
        return Err(format!("the clock of a paused simulation changed from {before:?} to {after:?} (SimTime::now, sim_time) while another thread's Builder::build waited for the simulation lock"));
    }
    rt.dispatch_all();
    let _ = rt.finish();
    if let Some(h) = handle {
        h.join().map_err(|_| "the waiting builder's thread panicked".to_string())?;
    }
    let o = obs.lock().unwrap().clone();
    let s = *seen.lock().unwrap();
    Ok((o, s))
}

/// Err(detail) iff the waiting builder disturbed the running simulation (or got a wrong clock itself).
pub fn waiting_builder_probe() -> Result<u64, String> {
    let (alone, _) = run_once(false)?;
    let (visited, seen) = run_once(true)?;
    for (k, e) in visited.iter().enumerate() {
        if e.1 != 6 + k as u128 {
            return Err(format!("event {} observed SimTime::now() = {}ns instead of its timestamp {}ns after another thread's Builder::build started waiting for the simulation lock", e.0, e.1, 6 + k));
        }
    }
    if visited != alone {
        let i = visited.iter().zip(&alone).position(|(a, b)| a != b).unwrap_or(visited.len().min(alone.len()));
        return Err(format!(
            "(event, time, random()) history differs from the run without a visitor at entry {i}: {:?} vs {:?} - a builder waiting for the simulation lock in another thread changed the running simulation",
            visited.get(i),
            alone.get(i)
        ));
    }
    if alone.len() != 7 {
        return Err(format!("machinery: probe program dispatched {} events", alone.len()));
    }
    if seen != Some(1000) {
        return Err(format!("the runtime built by the waiting thread reports sim_time() = {seen:?}ns right after build, its start time is 1000ns"));
    }
    Ok(crate::fp(&alone))
}
