//! Shared lab helpers: silent panics, live-object registry, global trace.

use std::sync::Mutex;

/// Installs a panic hook that prints nothing (the subject is run under `catch_unwind`
/// millions of times; des re-installs the default hook at the end of every simulation,
/// so this is called before every guarded section).
pub fn silence_panics() {
    std::panic::set_hook(Box::new(|_| {}));
}

// ---------------------------------------------------------------------------------------
// Live-object registry: every user-visible value embeds a `Token`; the registry counts
// creations and drops per token id.
// ---------------------------------------------------------------------------------------

#[derive(Default)]
struct Registry {
    created: Vec<u32>,
    dropped: Vec<u32>,
    kind: Vec<&'static str>,
}

static REG: Mutex<Registry> = Mutex::new(Registry { created: Vec::new(), dropped: Vec::new(), kind: Vec::new() });

fn reg() -> std::sync::MutexGuard<'static, Registry> {
    REG.lock().unwrap_or_else(|p| p.into_inner())
}

#[derive(Debug)]
pub struct Token {
    pub id: u32,
}

impl Token {
    pub fn new(kind: &'static str) -> Token {
        let mut r = reg();
        let id = r.created.len() as u32;
        r.created.push(1);
        r.dropped.push(0);
        r.kind.push(kind);
        Token { id }
    }
}

impl Clone for Token {
    /// A clone is a *new* object of the same kind.
    fn clone(&self) -> Self {
        let kind = reg().kind[self.id as usize];
        Token::new(kind)
    }
}

impl Drop for Token {
    fn drop(&mut self) {
        let mut r = reg();
        r.dropped[self.id as usize] += 1;
    }
}

pub fn registry_reset() {
    let mut r = reg();
    r.created.clear();
    r.dropped.clear();
    r.kind.clear();
}

#[derive(Debug, Default, Clone, PartialEq, Eq)]
pub struct RegistryReport {
    pub total: usize,
    /// (token id, kind) never dropped
    pub leaked: Vec<(u32, &'static str)>,
    /// (token id, kind, times) dropped more than once
    pub double: Vec<(u32, &'static str, u32)>,
}

pub fn registry_report() -> RegistryReport {
    let r = reg();
    let mut rep = RegistryReport { total: r.created.len(), ..Default::default() };
    for i in 0..r.created.len() {
        if r.dropped[i] == 0 {
            rep.leaked.push((i as u32, r.kind[i]));
        } else if r.dropped[i] > 1 {
            rep.double.push((i as u32, r.kind[i], r.dropped[i]));
        }
    }
    rep
}

pub fn registry_dropped(id: u32) -> u32 {
    reg().dropped[id as usize]
}

pub fn registry_live_of(kind: &str) -> usize {
    let r = reg();
    (0..r.created.len()).filter(|&i| r.kind[i] == kind && r.dropped[i] == 0).count()
}

// ---------------------------------------------------------------------------------------
// Global trace: (time ns, who, what)
// ---------------------------------------------------------------------------------------

pub type TraceEntry = (u128, String, String);
static TRACE: Mutex<Vec<TraceEntry>> = Mutex::new(Vec::new());

pub fn trace_reset() {
    TRACE.lock().unwrap_or_else(|p| p.into_inner()).clear();
}
pub fn trace_push(t: u128, who: impl Into<String>, what: impl Into<String>) {
    TRACE.lock().unwrap_or_else(|p| p.into_inner()).push((t, who.into(), what.into()));
}
pub fn trace_take() -> Vec<TraceEntry> {
    std::mem::take(&mut *TRACE.lock().unwrap_or_else(|p| p.into_inner()))
}
pub fn trace_len() -> usize {
    TRACE.lock().unwrap_or_else(|p| p.into_inner()).len()
}
