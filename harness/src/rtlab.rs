//! Runtime-level lab (C02, C03, C10, C11): event programs as data, the real `Runtime<App>`
//! and the boring reference scheduler.

use des::prelude::*;
use des::runtime::RuntimeLimit;
use serde_json::{json, Value};
use std::sync::{Arc, Mutex};

/// An event program: event `i` (0..m) is either a root scheduled before the run at
/// `start + delay`, or a child scheduled by the handler of its parent `delay` after it.
/// Handlers schedule their children in index order.
#[derive(Clone, Debug, PartialEq, Eq, Hash)]
pub struct Program {
    /// (event id, delay after start) in scheduling order
    pub roots: Vec<(u32, u64)>,
    /// children[i] = (event id, delay) scheduled by event i's handler, in order
    pub children: Vec<Vec<(u32, u64)>>,
}

impl Program {
    pub fn m(&self) -> usize {
        self.children.len()
    }
    pub fn to_json(&self) -> Value {
        json!({"roots": self.roots, "children": self.children})
    }
    pub fn from_json(v: &Value) -> Program {
        let pairs = |v: &Value| -> Vec<(u32, u64)> {
            v.as_array()
                .unwrap()
                .iter()
                .map(|p| (p[0].as_u64().unwrap() as u32, p[1].as_u64().unwrap()))
                .collect()
        };
        Program {
            roots: pairs(&v["roots"]),
            children: v["children"].as_array().unwrap().iter().map(pairs).collect(),
        }
    }
}

/// Enumerates every program of exactly `m` events: event i picks a parent in
/// {root} ∪ {0..i-1} and a delay from `deltas` (mixed-radix counter, complete).
pub fn for_each_program(m: usize, deltas: &[u64], mut f: impl FnMut(&Program)) {
    let nd = deltas.len();
    let mut idx = vec![0usize; m];
    loop {
        let mut prog = Program { roots: vec![], children: vec![vec![]; m] };
        for i in 0..m {
            let c = idx[i];
            let par = c / nd;
            let d = deltas[c % nd];
            if par == 0 {
                prog.roots.push((i as u32, d));
            } else {
                prog.children[par - 1].push((i as u32, d));
            }
        }
        f(&prog);
        let mut i = 0;
        loop {
            if i == m {
                return;
            }
            idx[i] += 1;
            if idx[i] < (i + 1) * nd {
                break;
            }
            idx[i] = 0;
            i += 1;
        }
    }
}

/// Reference scheduler: a list sorted by (time, class, seq) where class 0 = scheduled for the
/// instant that was current at scheduling time (zero before the first dispatch).
/// `extra` = additional externally injected events (id, absolute time) given as
/// (after how many dispatched events they are injected, id, abs time).
pub fn reference(start: u64, prog: &Program) -> Vec<(u32, u128)> {
    let mut r = RefSched::new(start, prog);
    let mut out = vec![];
    while let Some(e) = r.step() {
        out.push(e);
    }
    out
}

pub struct RefSched<'a> {
    prog: &'a Program,
    pub pending: Vec<(u128, u8, u64, u32)>,
    seq: u64,
    /// current instant as seen by the tie rule (zero before the first dispatch)
    pub cur: u128,
    /// time reported while paused (start before the first dispatch)
    pub now: u128,
}

impl<'a> RefSched<'a> {
    pub fn new(start: u64, prog: &'a Program) -> Self {
        let mut s = RefSched { prog, pending: vec![], seq: 0, cur: 0, now: start as u128 };
        for &(id, d) in &prog.roots {
            s.add(id, (start + d) as u128);
        }
        s
    }
    pub fn add(&mut self, id: u32, t: u128) {
        self.pending.push((t, if t == self.cur { 0 } else { 1 }, self.seq, id));
        self.seq += 1;
    }
    pub fn peek(&self) -> Option<(u32, u128)> {
        self.pending.iter().min_by_key(|e| (e.0, e.1, e.2)).map(|e| (e.3, e.0))
    }
    pub fn step(&mut self) -> Option<(u32, u128)> {
        if self.pending.is_empty() {
            return None;
        }
        let i = (0..self.pending.len()).min_by_key(|&i| (self.pending[i].0, self.pending[i].1, self.pending[i].2)).unwrap();
        let (t, _, _, id) = self.pending.remove(i);
        self.cur = t;
        self.now = t;
        if (id as usize) < self.prog.children.len() {
            for &(c, d) in &self.prog.children[id as usize] {
                self.add(c, t + d as u128);
            }
        }
        Some((id, t))
    }
}

pub type Log = Arc<Mutex<Vec<(u32, u128)>>>;

#[derive(Clone, Copy, Debug, PartialEq, Eq)]
pub struct Probe {
    /// handler of which event issues the probe
    pub at: u32,
    /// how far before `now` the probe event is scheduled (ns)
    pub back: u64,
}

#[derive(Default, Debug, Clone, PartialEq, Eq)]
pub struct ProbeResult {
    /// Some(true): the add was rejected with a panic; Some(false): accepted
    pub rejected: Option<bool>,
    /// clock read inside the handler right after the probe
    pub now_after: u128,
}

pub struct App {
    pub log: Log,
    pub prog: Arc<Program>,
    pub probe: Option<Probe>,
    pub probe_result: Arc<Mutex<ProbeResult>>,
    /// delays (ns, from the end time) of events the application schedules in its at_sim_end
    /// (ids 900, 901, ..); they can never run and must come back as remaining events
    pub end_adds: Vec<u64>,
}

thread_local! {
    /// what `build_with` puts into `App::end_adds`
    pub static END_ADDS: std::cell::RefCell<Vec<u64>> = const { std::cell::RefCell::new(Vec::new()) };
}

pub struct AppLifecycle;
impl EventLifecycle<App> for AppLifecycle {
    fn at_sim_end(rt: &mut Runtime<App>) -> Result<(), RuntimeError> {
        let adds = rt.app.end_adds.clone();
        for (i, d) in adds.iter().enumerate() {
            rt.add_event_in(Ev(900 + i as u32), Duration::from_nanos(*d));
        }
        Ok(())
    }
}

impl Application for App {
    type EventSet = Ev;
    type Lifecycle = AppLifecycle;
}

pub const PROBE_ID: u32 = 999;

#[derive(Debug)]
pub struct Ev(pub u32);

impl Event<App> for Ev {
    fn handle(self, rt: &mut Runtime<App>) {
        rt.app.log.lock().unwrap().push((self.0, SimTime::now().as_nanos()));
        if let Some(p) = rt.app.probe {
            if p.at == self.0 && SimTime::now().as_nanos() >= u128::from(p.back) {
                let t = ns(SimTime::now().as_nanos() as u64 - p.back);
                let r = std::panic::catch_unwind(std::panic::AssertUnwindSafe(|| rt.add_event(Ev(PROBE_ID), t)));
                let mut pr = rt.app.probe_result.lock().unwrap();
                pr.rejected = Some(r.is_err());
                pr.now_after = SimTime::now().as_nanos();
            }
        }
        let prog = rt.app.prog.clone();
        if (self.0 as usize) < prog.children.len() {
            for &(c, d) in &prog.children[self.0 as usize] {
                rt.add_event_in(Ev(c), Duration::from_nanos(d));
            }
        }
    }
}

pub fn ns(v: u64) -> SimTime {
    SimTime::from_duration(Duration::from_nanos(v))
}

#[derive(Clone, Copy, Debug, PartialEq, Eq, Hash)]
pub struct RtCfg {
    pub n: usize,
    pub t: u64,
    pub start: u64,
}

pub struct Built {
    pub rt: Runtime<App>,
    pub log: Log,
    pub probe: Arc<Mutex<ProbeResult>>,
}

/// Builds the real runtime for a program and pre-loads the roots.
pub fn build(cfg: RtCfg, prog: &Arc<Program>, limit: Option<RuntimeLimit>, probe: Option<Probe>) -> Built {
    build_with(cfg, prog, probe, |b| if let Some(l) = limit { b.limit(l) } else { b })
}

pub fn build_with(
    cfg: RtCfg,
    prog: &Arc<Program>,
    probe: Option<Probe>,
    f: impl FnOnce(Builder) -> Builder,
) -> Built {
    let log: Log = Default::default();
    let pr: Arc<Mutex<ProbeResult>> = Default::default();
    let b = Builder::seeded(1).quiet().cqueue_options(cfg.n, Duration::from_nanos(cfg.t)).start_time(ns(cfg.start));
    let b = f(b);
    let mut rt = b.build(App { log: log.clone(), prog: prog.clone(), probe, probe_result: pr.clone(), end_adds: END_ADDS.with(|e| e.borrow().clone()) });
    for &(id, d) in &prog.roots {
        rt.add_event(Ev(id), ns(cfg.start + d));
    }
    Built { rt, log, probe: pr }
}

pub fn deltas_for(n: usize, t: u64) -> Vec<u64> {
    let y = n as u64 * t;
    let mut d = vec![0, 1, t.saturating_sub(1), t, t + 1, y, y + 1];
    d.sort_unstable();
    d.dedup();
    d
}
