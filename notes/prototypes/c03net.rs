// Throw-away design prototype for C03, net layer: same-instant arrivals keep the emission order per class. Not framework code.
use des::prelude::*;
use std::sync::{Arc, Mutex};
type Log = Arc<Mutex<Vec<(String, u16, u128)>>>;

#[derive(Clone, Copy, Debug, PartialEq)]
enum Act { SendDirect, SendLat, SelfNow, SelfLater } // to rx via channel-less chain / via latency channel / schedule_in(0) / schedule_in(D)
const D_MS: u64 = 5;
struct Tx { acts: Vec<Act>, log: Log }
impl Module for Tx {
    fn at_sim_start(&mut self, _: usize) { schedule_in(Message::default().kind(900), Duration::from_millis(1)); }
    fn handle_message(&mut self, m: Message) {
        if m.header().kind == 900 {
            for (i, a) in self.acts.iter().enumerate() {
                let msg = Message::default().kind(i as u16);
                match a { Act::SendDirect => send(msg, "d"), Act::SendLat => send(msg, "l"), Act::SelfNow => schedule_in(msg, Duration::ZERO), Act::SelfLater => schedule_in(msg, Duration::from_millis(D_MS)) }
            }
        } else { self.log.lock().unwrap().push(("tx".into(), m.header().kind, SimTime::now().as_nanos())); }
    }
}
struct Rx { log: Log }
impl Module for Rx { fn handle_message(&mut self, m: Message) { self.log.lock().unwrap().push(("rx".into(), m.header().kind, SimTime::now().as_nanos())); } }
fn main() {
    let acts = [Act::SendDirect, Act::SendLat, Act::SelfNow, Act::SelfLater];
    let (mut runs, mut bad) = (0u64, 0u64);
    for len in 1..=5usize { for code in 0..acts.len().pow(len as u32) {
        let mut c = code; let mut seq = vec![]; for _ in 0..len { seq.push(acts[c % 4]); c /= 4; }
        for (n, t_us) in [(4usize, 700u64), (1028, 2500), (3, 5000)] {
            let log: Log = Default::default();
            let mut sim = Sim::new(());
            sim.node("tx", Tx { acts: seq.clone(), log: log.clone() });
            sim.node("rx", Rx { log: log.clone() });
            sim.gate("tx", "d").connect(sim.gate("rx", "d"), None);
            sim.gate("tx", "l").connect(sim.gate("rx", "l"), Some(Channel::new(ChannelMetrics::new(0, Duration::from_millis(D_MS), Duration::ZERO, ChannelDropBehaviour::Drop))));
            let _ = Builder::seeded(1).quiet().cqueue_options(n, Duration::from_micros(t_us)).build(sim.freeze()).run().unwrap();
            runs += 1;
            let got = log.lock().unwrap().clone();
            // expected: at 1ms: all SendDirect and SelfNow in emission order (all are zero-delay events scheduled in emission order);
            // at 1ms+D: SendLat and SelfLater in emission order.
            let now: Vec<(String, u16, u128)> = seq.iter().enumerate().filter(|(_, a)| matches!(a, Act::SendDirect | Act::SelfNow)).map(|(i, a)| ((if *a == Act::SendDirect { "rx" } else { "tx" }).to_string(), i as u16, 1_000_000u128)).collect();
            let later: Vec<(String, u16, u128)> = seq.iter().enumerate().filter(|(_, a)| matches!(a, Act::SendLat | Act::SelfLater)).map(|(i, a)| ((if *a == Act::SendLat { "rx" } else { "tx" }).to_string(), i as u16, 1_000_000u128 + D_MS as u128 * 1_000_000)).collect();
            let exp: Vec<_> = now.into_iter().chain(later).collect();
            if got != exp { bad += 1; if bad < 4 { println!("C03net MISMATCH seq={seq:?} cfg=({n},{t_us}us)\n got={got:?}\n exp={exp:?}"); } }
        }
    }}
    println!("C03net runs={runs} bad={bad}");
}
