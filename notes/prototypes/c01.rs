// Throw-away design prototype for C01/C03 (explicit-state BFS over CQueue histories). Not framework code.
use des_cqueue::{CQueue, EventHandle};
use std::collections::HashSet;
use std::hash::{Hash, Hasher};
use std::panic::{catch_unwind, AssertUnwindSafe};
use std::time::Duration;

#[derive(Clone, Copy, Debug, PartialEq, Eq, Hash)]
enum Op {
    Add(u64),      // delta in ns relative to time()
    Fetch,
    Cancel(usize), // index of handle in issue order
}

#[derive(Clone, Debug, PartialEq)]
enum EvState {
    Live,
    Fetched,
    Cancelled,
}
struct RefEv {
    time: u128,
    class: u8,
    seq: u64,
    st: EvState,
}

struct Exec {
    q: CQueue<u32>,
    handles: Vec<Option<EventHandle<u32>>>,
    evs: Vec<RefEv>,
    cur: u128,
    seq: u64,
}

#[derive(Debug)]
enum Fail {
    Panic(String),
    Wrong(String),
}

fn apply(x: &mut Exec, op: Op, tie_oracle: bool) -> Result<(), Fail> {
    match op {
        Op::Add(d) => {
            let t = x.q.time() + Duration::from_nanos(d);
            let id = x.evs.len() as u32;
            let h = catch_unwind(AssertUnwindSafe(|| x.q.add(t, id))).map_err(|_| Fail::Panic("add".into()))?;
            x.handles.push(Some(h));
            let tn = t.as_nanos();
            x.evs.push(RefEv { time: tn, class: if tn == x.cur { 0 } else { 1 }, seq: x.seq, st: EvState::Live });
            x.seq += 1;
        }
        Op::Fetch => {
            let (id, t) = catch_unwind(AssertUnwindSafe(|| x.q.fetch_next())).map_err(|_| Fail::Panic("fetch".into()))?;
            let live: Vec<usize> = (0..x.evs.len()).filter(|&i| x.evs[i].st == EvState::Live).collect();
            let min_t = live.iter().map(|&i| x.evs[i].time).min().unwrap();
            let e = &x.evs[id as usize];
            if e.st != EvState::Live {
                return Err(Fail::Wrong(format!("fetched non-live event {id} ({:?})", e.st)));
            }
            if t.as_nanos() != e.time {
                return Err(Fail::Wrong(format!("event {id} returned with time {t:?}, scheduled {}", e.time)));
            }
            if e.time != min_t {
                return Err(Fail::Wrong(format!("fetched time {} but min live is {min_t}", e.time)));
            }
            if tie_oracle {
                let best = *live.iter().min_by_key(|&&i| (x.evs[i].time, x.evs[i].class, x.evs[i].seq)).unwrap();
                if best != id as usize {
                    return Err(Fail::Wrong(format!("tie order: fetched {id}, rule says {best}")));
                }
            }
            x.evs[id as usize].st = EvState::Fetched;
            x.cur = t.as_nanos();
        }
        Op::Cancel(j) => {
            let h = x.handles[j].take().unwrap();
            catch_unwind(AssertUnwindSafe(|| x.q.cancel(h))).map_err(|_| Fail::Panic("cancel".into()))?;
            if x.evs[j].st == EvState::Live {
                x.evs[j].st = EvState::Cancelled;
            }
        }
    }
    // len + structure
    let live = x.evs.iter().filter(|e| e.st == EvState::Live).count();
    if x.q.len() != live {
        return Err(Fail::Wrong(format!("len {} != live {live}", x.q.len())));
    }
    let s = x.q.verif_snapshot();
    let y = s.t.as_nanos() * s.n as u128;
    let mut ids: Vec<usize> = vec![];
    for (time, id) in &s.zero {
        if *time != s.t_current {
            return Err(Fail::Wrong("zero bucket event with time != t_current".into()));
        }
        ids.push(*id);
    }
    for (b, (fwd, bwd, len)) in s.buckets.iter().enumerate() {
        let mut r = bwd.clone();
        r.reverse();
        if *fwd != r || fwd.len() != *len {
            return Err(Fail::Wrong(format!("bucket {b}: fwd/bwd/len inconsistent")));
        }
        for w in fwd.windows(2) {
            if w[0].0 > w[1].0 {
                return Err(Fail::Wrong(format!("bucket {b} unsorted")));
            }
        }
        for (time, id) in fwd {
            if ((time.as_nanos() % y) / s.t.as_nanos()) as usize % s.n != b {
                return Err(Fail::Wrong(format!("event in wrong bucket {b}")));
            }
            if *time < s.t_current {
                return Err(Fail::Wrong("event older than t_current".into()));
            }
            ids.push(*id);
        }
    }
    ids.sort();
    // ids in impl are the CQueue's own event ids = issue order index (we add ids in order) -> compare with live set
    let mut exp: Vec<usize> = (0..x.evs.len()).filter(|&i| x.evs[i].st == EvState::Live).collect();
    exp.sort();
    if ids != exp {
        return Err(Fail::Wrong(format!("snapshot live ids {ids:?} != reference {exp:?}")));
    }
    if s.t1 - s.t0 != s.t || ((s.t0.as_nanos() / s.t.as_nanos()) % s.n as u128) as usize != s.head {
        return Err(Fail::Wrong("head/t0/t1 inconsistent".into()));
    }
    Ok(())
}

fn canon(x: &Exec) -> u64 {
    let s = x.q.verif_snapshot();
    let mut rank = std::collections::HashMap::new();
    let mut next = 0usize;
    let mut r = |id: usize| -> usize {
        *rank.entry(id).or_insert_with(|| {
            next += 1;
            next - 1
        })
    };
    let mut h = std::collections::hash_map::DefaultHasher::new();
    (s.head, s.t_current, s.t0, s.t1, s.len).hash(&mut h);
    for (t, id) in &s.zero {
        (t, r(*id)).hash(&mut h);
    }
    0xffu8.hash(&mut h);
    for (fwd, _, _) in &s.buckets {
        for (t, id) in fwd {
            (t, r(*id)).hash(&mut h);
        }
        0xfeu8.hash(&mut h);
    }
    // handles still available: for live ones -> rank ; for dead ones -> time ; class of live events (for tie oracle) implied by position
    let mut dead: Vec<u128> = vec![];
    for (j, hd) in x.handles.iter().enumerate() {
        if hd.is_some() {
            if x.evs[j].st == EvState::Live {
                (1u8, r(j)).hash(&mut h);
            } else {
                dead.push(x.evs[j].time);
            }
        } else if x.evs[j].st == EvState::Live {
            // live but handle consumed?? impossible (cancel kills) unless cancel failed
            (2u8, r(j)).hash(&mut h);
        }
    }
    dead.sort();
    dead.hash(&mut h);
    h.finish()
}

fn run_hist(n: usize, t: u64, hist: &[Op], tie: bool) -> (Exec, Result<(), (usize, Fail)>) {
    let mut x = Exec { q: CQueue::new(n, Duration::from_nanos(t)), handles: vec![], evs: vec![], cur: 0, seq: 0 };
    for (i, &op) in hist.iter().enumerate() {
        if let Err(f) = apply(&mut x, op, tie) {
            return (x, Err((i, f)));
        }
    }
    (x, Ok(()))
}

fn enabled(x: &Exec, deltas: &[u64]) -> Vec<Op> {
    let mut v: Vec<Op> = deltas.iter().map(|&d| Op::Add(d)).collect();
    if !x.q.is_empty() {
        v.push(Op::Fetch);
    }
    for (j, h) in x.handles.iter().enumerate() {
        if h.is_some() {
            v.push(Op::Cancel(j));
        }
    }
    v
}

fn main() {
    let depth: usize = std::env::args().nth(1).map(|s| s.parse().unwrap()).unwrap_or(5);
    let dedup = std::env::args().nth(2).map_or(true, |s| s != "nodedup");
    let tie = true;
    let cfgs: [(usize, u64); 6] = [(1, 1), (1, 3), (2, 1), (2, 3), (3, 2), (4, 5)];
    for &(n, t) in &cfgs {
        let y = n as u64 * t;
        let mut deltas = vec![0, 1, t.saturating_sub(1), t, t + 1, y.saturating_sub(1), y, y + 1, 3 * y + 2];
        deltas.sort();
        deltas.dedup();
        let mut frontier: Vec<Vec<Op>> = vec![vec![]];
        let mut seen: HashSet<u64> = HashSet::new();
        let (mut states, mut transitions, mut violations) = (1u64, 0u64, 0u64);
        let mut first: Option<String> = None;
        let mut outcomes: HashSet<u64> = HashSet::new();
        for _d in 0..depth {
            let mut next = vec![];
            for hist in &frontier {
                let (x, r) = run_hist(n, t, hist, tie);
                assert!(r.is_ok());
                for op in enabled(&x, &deltas) {
                    let mut h2 = hist.clone();
                    h2.push(op);
                    let (x2, r2) = run_hist(n, t, &h2, tie);
                    transitions += 1;
                    match r2 {
                        Err((_, f)) => {
                            violations += 1;
                            if first.is_none() {
                                first = Some(format!("{h2:?} -> {f:?}"));
                            }
                        }
                        Ok(()) => {
                            let k = canon(&x2);
                            outcomes.insert(k);
                            if !dedup || seen.insert(k) {
                                states += 1;
                                next.push(h2);
                            }
                        }
                    }
                }
            }
            frontier = next;
        }
        // drain check on frontier leaves
        println!("cfg=({n},{t}) depth={depth} dedup={dedup} states={states} transitions={transitions} distinct-outcomes={} violations={violations} first={first:?}", outcomes.len());
    }
}
