// Throw-away design prototype for C18 part A (totality under single-point mutations). Not framework code.
use des::net::ndl::*;
use des::prelude::*;
use std::collections::BTreeMap;
use std::panic::{catch_unwind, AssertUnwindSafe};
use std::sync::Mutex;

static LAST_PANIC: Mutex<Option<String>> = Mutex::new(None);

#[derive(Default)]
struct M;
impl Module for M {}

const BASES: &[&str] = &[
    // 0: plain with clusters, indexed + cluster connections, link
    "entry: Main\nmodules:\n  Main:\n    gates:\n    - up\n    submodules:\n      a: Leaf\n      c[2]: Leaf\n      m: Mid\n    connections:\n    - peers:\n      - a/g\n      - up\n    - peers:\n      - c/g\n      - m/dn\n      link: L\n    - peers:\n      - c[1]/h[0]\n      - m/s/g\n  Mid:\n    gates:\n    - dn[2]\n    submodules:\n      s: Leaf\n  Leaf:\n    gates:\n    - g\n    - h[2]\nlinks:\n  L:\n    latency: 0.1\n    jitter: 0.0\n    bitrate: 1000\n",
    // 1: inheritance + generics
    "entry: A\nmodules:\n  A:\n    submodules:\n      b: B(C2)\n  B(Inner <- C):\n    submodules:\n      c: Inner\n    gates:\n    - x\n    connections:\n    - peers:\n      - c/port\n      - x\n  C:\n    gates:\n    - port\n  C2:\n    inherit: C\n    gates:\n    - new\n",
    // 2: inherit with submodules and connections
    "entry: A\nmodules:\n  A:\n    submodules:\n      b: B(C)\n      g: G(C)\n  B(Inner <- C):\n    submodules:\n      c: Inner\n  G(T <- C):\n    submodules:\n      t: T\n  C:\n    gates:\n    - port\n",
    "entry: Top\nmodules:\n  Base:\n    gates:\n    - p[2]\n    submodules:\n      k: Leaf\n    connections:\n    - peers:\n      - k/g\n      - p[0]\n  Top:\n    inherit: Base\n    submodules:\n      z: Leaf\n    connections:\n    - peers:\n      - z/g\n      - p[1]\n  Leaf:\n    gates:\n    - g\n",
];

const MUTS: &[&str] = &[
    "", "X", "Leaf", "Main", "g", "g[", "g]", "g[x]", "g[0]", "g[1]", "g[2]", "g[3]", "[2]", "c[0]", "c[2]", "c[3]", "c[1]/g", "a/", "/g", "a//g", "a/g/h", "m/s/q", "m/q/g", "A(", "A(T", "A(T <- ", "A(T <- B", "A)", "B(C)", "B(C, C)", "B(B(C))", "B(Inner)", "B(G)", "G(B)", "G(C)", "G", "T", "Inner",
    "B(X <- C, X <- C)", "Inner(C)", "T <- ", "<- C", "L", "K", "0", "-1", "1e400", "nan", "~", "[]", "{}", "up", "dn", "dn[2]", "m/dn[0]", "m/dn[5]", "Top", "Base", "Mid", "C", "C2", "A", "B",
];

fn try_doc(doc: &str) -> (String, Option<String>) {
    *LAST_PANIC.lock().unwrap() = None;
    let r = catch_unwind(AssertUnwindSafe(|| -> Result<usize, String> {
        let def: Def = serde_yml::from_str(doc).map_err(|e| format!("parse: {e}"))?;
        let _net = des_net_utils::ndl::transform(&def).map_err(|e| format!("transform: {e}"))?;
        let mut sim = Sim::new(());
        let reg = Registry::new().with_default_fallback();
        sim.nodes_from_ndl(&def, reg).map_err(|e| format!("build: {e}"))?;
        let n = sim.nodes().count();
        Ok(n)
    }));
    match r {
        Ok(Ok(n)) => (format!("ok:{n}"), None),
        Ok(Err(e)) => (format!("err:{}", e.split(':').next().unwrap_or("")), None),
        Err(_) => ("panic".into(), LAST_PANIC.lock().unwrap().clone()),
    }
}

fn main() {
    std::panic::set_hook(Box::new(|info| {
        let loc = info.location().map(|l| format!("{}:{}", l.file().rsplit('/').next().unwrap_or(""), l.line())).unwrap_or_default();
        let msg = info.payload().downcast_ref::<&str>().map(|s| s.to_string()).or_else(|| info.payload().downcast_ref::<String>().cloned()).unwrap_or_default();
        *LAST_PANIC.lock().unwrap() = Some(format!("{loc} {}", msg.chars().take(70).collect::<String>()));
    }));
    let mut total = 0u64;
    let mut classes: BTreeMap<String, u64> = BTreeMap::new();
    let mut panics: BTreeMap<String, (u64, String)> = BTreeMap::new();
    for (bi, base) in BASES.iter().enumerate() {
        let (c, _) = try_doc(base);
        println!("base {bi}: {c}");
        // tokens = every scalar: lines split on ': ' and '- '
        let lines: Vec<&str> = base.lines().collect();
        for li in 0..lines.len() {
            let line = lines[li];
            let indent = line.len() - line.trim_start().len();
            let body = line.trim_start();
            // candidate spans to replace: key (before ':'), value (after ': '), list item (after '- ')
            let mut spans: Vec<(usize, usize)> = vec![];
            if let Some(rest) = body.strip_prefix("- ") {
                if let Some(p) = rest.find(": ") {
                    spans.push((indent + 2, indent + 2 + p));
                    spans.push((indent + 2 + p + 2, line.len()));
                } else if !rest.ends_with(':') {
                    spans.push((indent + 2, line.len()));
                }
            } else if let Some(p) = body.find(": ") {
                spans.push((indent, indent + p));
                spans.push((indent + p + 2, line.len()));
            } else if body.ends_with(':') {
                spans.push((indent, line.len() - 1));
            }
            for (a, b) in spans {
                for m in MUTS {
                    let mut nl = String::new();
                    nl.push_str(&line[..a]);
                    if m.is_empty() || m.contains(|c: char| " <-(),[]{}~/".contains(c)) {
                        nl.push('"');
                        nl.push_str(m);
                        nl.push('"');
                    } else {
                        nl.push_str(m);
                    }
                    nl.push_str(&line[b..]);
                    let mut doc = String::new();
                    for (k, l) in lines.iter().enumerate() {
                        doc.push_str(if k == li { &nl } else { l });
                        doc.push('\n');
                    }
                    let (c, p) = try_doc(&doc);
                    total += 1;
                    *classes.entry(c.split(':').take(2).collect::<Vec<_>>().join(":")).or_default() += 1;
                    if let Some(p) = p {
                        let e = panics.entry(p).or_insert((0, String::new()));
                        e.0 += 1;
                        if e.1.is_empty() {
                            e.1 = format!("base {bi} line {li} {:?} -> {:?}", line.trim(), nl.trim());
                        }
                    }
                }
            }
        }
    }
    println!("C18a docs={total}");
    for (k, v) in &classes {
        println!("  {v:6} {k}");
    }
    println!("panic sites:");
    for (k, (n, ex)) in &panics {
        println!("  {n:5} {k}\n        e.g. {ex}");
    }
}
