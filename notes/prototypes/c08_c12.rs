// Throw-away design prototype for C08 (gate chains) and C12 (start-up order). Not framework code.
use des::prelude::*;
use std::sync::{Arc, Mutex};
type Log = Arc<Mutex<Vec<String>>>;

struct Node { name: String, log: Log, send_on_start: Option<(String, f64)>, stages: usize }
impl Module for Node {
    fn num_sim_start_stages(&self) -> usize { self.stages }
    fn at_sim_start(&mut self, st: usize) {
        self.log.lock().unwrap().push(format!("start:{}:{}", self.name, st));
        if st == 0 { if let Some((g, d)) = &self.send_on_start { send_in(Message::default().id(7), g.as_str(), Duration::from_secs_f64(*d)); } }
    }
    fn handle_message(&mut self, m: Message) {
        let h = m.header();
        self.log.lock().unwrap().push(format!("recv:{}:t={}:last={}:snd={}:rcv_ok={}", self.name, SimTime::now().as_nanos(), h.last_gate.as_ref().map(|g| g.path().to_string()).unwrap_or_default(), h.sender_module_id.0, h.receiver_module_id == current().id()));
    }
    fn at_sim_end(&mut self) -> Result<(), RuntimeError> {
        let me = current();
        let parent_ok = match me.path().parent().filter(|p| !p.is_root()) { Some(p) => me.parent().map(|m| m.path() == p).unwrap_or(false), None => me.parent().is_err() };
        self.log.lock().unwrap().push(format!("end:{}:parent_ok={parent_ok}:path_ok={}", self.name, me.path().as_str() == self.name));
        Ok(())
    }
}
fn perms(n: usize) -> Vec<Vec<usize>> { if n == 0 { return vec![vec![]]; } let mut out = vec![]; for p in perms(n-1) { for i in 0..=p.len() { let mut q = p.clone(); q.insert(i, n-1); out.push(q); } } out }

fn c08() {
    let (mut runs, mut bad) = (0u64, 0u64);
    for k in 2..=5usize {
        let edges = k - 1;
        for perm in perms(edges) { for orient in 0..(1u32 << edges) { for chans in 0..(1u32 << edges) { for dir in 0..2 { for delay in [0.0, 0.5] {
            let log: Log = Default::default();
            let mut sim = Sim::new(());
            // gates i and i+1 share a module when i is odd and k > 3 (several gates on one module)
            let owner = |i: usize| if k > 3 && i % 2 == 1 && i + 1 < k - 1 { i + 1 } else { i };
            for i in 0..k { if owner(i) == i { sim.node(format!("m{i}"), Node { name: format!("m{i}"), log: log.clone(), stages: 1,
                send_on_start: if (dir == 0 && i == 0) || (dir == 1 && i == k-1) { Some(("g".into(), delay)) } else { None } }); } }
            let gates: Vec<_> = (0..k).map(|i| if owner(i) == i { sim.gate(format!("m{i}"), "g") } else { sim.gate(format!("m{}", owner(i)), "g2") }).collect();
            for &e in &perm {
                let ch = if chans & (1 << e) != 0 { Some(Channel::new(ChannelMetrics::new(0, Duration::from_millis(1 << e), Duration::ZERO, ChannelDropBehaviour::Drop))) } else { None };
                if orient & (1 << e) != 0 { gates[e].clone().connect(gates[e+1].clone(), ch); } else { gates[e+1].clone().connect(gates[e].clone(), ch); }
            }
            // structural: mirror image
            let fwd: Vec<String> = gates[0].path_iter().unwrap().map(|c| c.endpoint.path().to_string()).collect();
            let mut bwd: Vec<String> = gates[k-1].path_iter().unwrap().map(|c| c.endpoint.path().to_string()).collect();
            bwd.reverse();
            let all: Vec<String> = gates.iter().map(|g| g.path().to_string()).collect();
            let mirror_ok = fwd == all[1..].to_vec() && bwd == all[..k-1].to_vec();
            let sender_id = sim.get(&format!("m{}", if dir == 0 { 0 } else { k-1 }).as_str().into()).unwrap().id().0;
            let r = Builder::seeded(1).quiet().cqueue_options(8, Duration::from_millis(3)).build(sim.freeze()).run();
            runs += 1;
            let total: u64 = (0..edges).filter(|e| chans & (1 << e) != 0).map(|e| 1u64 << e).sum();
            let exp_t = (delay * 1e9) as u128 + total as u128 * 1_000_000;
            let dst = if dir == 0 { k-1 } else { 0 };
            let exp = format!("recv:m{dst}:t={exp_t}:last=m{dst}.g:snd={sender_id}:rcv_ok=true");
            let recvs: Vec<String> = log.lock().unwrap().iter().filter(|s| s.starts_with("recv")).cloned().collect();
            if r.is_err() || recvs != vec![exp.clone()] || !mirror_ok { bad += 1; if bad < 5 { println!("C08 MISMATCH k={k} perm={perm:?} orient={orient:b} chans={chans:b} dir={dir} delay={delay} mirror_ok={mirror_ok}: got {recvs:?} exp {exp}"); } }
        }}}}}
    }
    println!("C08 runs={runs} bad={bad}");
}

fn c12() {
    let (mut runs, mut bad) = (0u64, 0u64);
    for n in 1..=5usize {
        let mut parents: Vec<Vec<Option<usize>>> = vec![vec![]];
        for i in 0..n { let mut next = vec![]; for p in &parents { for c in 0..=i { let mut q = p.clone(); q.push(if c == i { None } else { Some(c) }); next.push(q); } } parents = next; }
        for par in &parents {
            let names = ["a","ab","b","a1","c"];
            let mut paths: Vec<String> = vec![];
            for i in 0..n { paths.push(match par[i] { None => names[i].to_string(), Some(p) => format!("{}.{}", paths[p], names[i]) }); }
            for perm in perms(n) {
                let pos: Vec<usize> = { let mut v = vec![0; n]; for (k, &x) in perm.iter().enumerate() { v[x] = k; } v };
                if (0..n).any(|i| par[i].map_or(false, |p| pos[p] > pos[i])) { continue; }
                for stage_mask in 0..(1u32 << n.min(3)) {
                    let log: Log = Default::default();
                    let mut sim = Sim::new(());
                    for &i in &perm { sim.node(paths[i].as_str(), Node { name: paths[i].clone(), log: log.clone(), send_on_start: None, stages: if stage_mask & (1 << (i % 3)) != 0 { 2 } else { 1 } }); }
                    let _ = Builder::seeded(1).quiet().build(sim.freeze()).run();
                    runs += 1;
                    let mut order: Vec<usize> = vec![];
                    fn dfs(i: usize, par: &Vec<Option<usize>>, perm: &Vec<usize>, out: &mut Vec<usize>) { out.push(i); for &c in perm { if par[c] == Some(i) { dfs(c, par, perm, out); } } }
                    for &r in &perm { if par[r].is_none() { dfs(r, par, &perm, &mut order); } }
                    let mut exp = vec![];
                    for st in 0..2 { for &i in &order { let stages = if stage_mask & (1 << (i % 3)) != 0 { 2 } else { 1 }; if st < stages { exp.push(format!("start:{}:{}", paths[i], st)); } } }
                    let got = log.lock().unwrap().clone();
                    let gs: Vec<String> = got.iter().filter(|s| s.starts_with("start")).cloned().collect();
                    let mut ge: Vec<String> = got.iter().filter(|s| s.starts_with("end")).cloned().collect(); ge.sort();
                    let mut ee: Vec<String> = (0..n).map(|i| format!("end:{}:parent_ok=true:path_ok=true", paths[i])).collect(); ee.sort();
                    let ends_after = got.iter().position(|s| s.starts_with("end")).map_or(true, |p| got[p..].iter().all(|s| s.starts_with("end")));
                    if gs != exp || ge != ee || !ends_after { bad += 1; if bad < 4 { println!("C12 MISMATCH par={par:?} perm={perm:?} got={got:?} exp={exp:?}"); } }
                }
            }
        }
    }
    // rejections
    let dup = std::panic::catch_unwind(|| { let mut sim = Sim::new(()); sim.node("a", Node { name: "a".into(), log: Default::default(), send_on_start: None, stages: 1 }); sim.node("a", Node { name: "a".into(), log: Default::default(), send_on_start: None, stages: 1 }); }).is_err();
    let orphan = std::panic::catch_unwind(|| { let mut sim = Sim::new(()); sim.node("x.y", Node { name: "x.y".into(), log: Default::default(), send_on_start: None, stages: 1 }); }).is_err();
    println!("C12 runs={runs} bad={bad} dup-rejected={dup} orphan-rejected={orphan}");
}
fn main() { match std::env::args().nth(1).unwrap().as_str() { "c08" => c08(), "c12" => c12(), _ => {} } }
