// Throw-away design prototype for C19 (topology). Not framework code.
use des::prelude::*;
use std::collections::{BTreeSet, VecDeque};

#[derive(Default)]
struct M;
impl Module for M {}

type E = (usize, usize, String, String); // from, to, start gate, end gate

fn bfs(n: usize, adj: &Vec<Vec<usize>>, s: usize) -> Vec<Option<usize>> {
    let mut d = vec![None; n];
    d[s] = Some(0);
    let mut q = VecDeque::from([s]);
    while let Some(u) = q.pop_front() {
        for &v in &adj[u] {
            if d[v].is_none() {
                d[v] = Some(d[u].unwrap() + 1);
                q.push_back(v);
            }
        }
    }
    d
}

fn main() {
    let maxn: usize = std::env::args().nth(1).map(|s| s.parse().unwrap()).unwrap_or(3);
    let names = ["s", "a", "ab", "c", "d"];
    let mut stats = [0u64; 8]; // graphs, bad_global, bad_spanned, bad_dijkstra, bad_connected, bad_filter, bad_bidir, queries
    let mut shown = 0;
    for n in 1..=maxn {
        // pairs i<=j ; multiplicity per pair 0..=mx (self pairs 0..=1)
        let mut pairs = vec![];
        for i in 0..n {
            for j in i..n {
                pairs.push((i, j));
            }
        }
        let mx = if n <= 3 { 2 } else { 1 };
        let radix: Vec<usize> = pairs.iter().map(|&(i, j)| if i == j { 2 } else { mx + 1 }).collect();
        let total: usize = radix.iter().product();
        // transit variant: 0 = none, k>0: first edge routed through a transit gate on module (k-1)
        for code in 0..total {
            for transit in 0..=n {
                let mut c = code;
                let mut mult = vec![];
                for r in &radix {
                    mult.push(c % r);
                    c /= r;
                }
                let mut sim = Sim::new(());
                for i in 0..n {
                    sim.node(names[i], M);
                }
                let mut edges_ref: Vec<E> = vec![]; // directed, in per-module gate creation order (we sort later)
                let mut first = true;
                let mut skip = false;
                for (pi, &(i, j)) in pairs.iter().enumerate() {
                    for k in 0..mult[pi] {
                        let gi = format!("g{j}x{k}a");
                        let gj = format!("g{i}x{k}b");
                        let a = sim.gate(names[i], &gi);
                        let b = sim.gate(names[j], &gj);
                        if first && transit > 0 {
                            let t = transit - 1;
                            let tg = sim.gate(names[t], "transit");
                            a.clone().connect(tg.clone(), None);
                            tg.connect(b.clone(), None);
                        } else {
                            a.clone().connect(b.clone(), None);
                        }
                        first = false;
                        edges_ref.push((i, j, format!("{}.{}", names[i], gi), format!("{}.{}", names[j], gj)));
                        edges_ref.push((j, i, format!("{}.{}", names[j], gj), format!("{}.{}", names[i], gi)));
                    }
                }
                if transit > 0 && first {
                    skip = true; // no edge to route
                }
                if skip {
                    continue;
                }
                stats[0] += 1;
                let mut adj = vec![vec![]; n];
                for e in &edges_ref {
                    adj[e.0].push(e.1);
                }
                let refset = |nodes: &BTreeSet<usize>| -> BTreeSet<(String, String, String, String)> {
                    edges_ref
                        .iter()
                        .filter(|e| nodes.contains(&e.0) && nodes.contains(&e.1))
                        .map(|e| (names[e.0].to_string(), names[e.1].to_string(), e.2.clone(), e.3.clone()))
                        .collect()
                };
                let collect = |t: &Topology<(), ()>| -> (Vec<String>, BTreeSet<(String, String, String, String)>, usize) {
                    let nodes: Vec<String> = t.nodes().iter().map(|n| n.module().path().to_string()).collect();
                    let mut cnt = 0;
                    let es = t
                        .edges()
                        .map(|e| {
                            cnt += 1;
                            (e.from.module().path().to_string(), e.to.module().path().to_string(), e.from.gate().path().to_string(), e.to.gate().path().to_string())
                        })
                        .collect();
                    (nodes, es, cnt)
                };
                let desc = || format!("n={n} pairs={pairs:?} mult={mult:?} transit={transit}");
                // global
                let topo = sim.globals().topology();
                let (nodes, es, cnt) = collect(&topo);
                let all: BTreeSet<usize> = (0..n).collect();
                let exp_nodes: Vec<String> = (0..n).map(|i| names[i].to_string()).collect();
                if nodes != exp_nodes || es != refset(&all) || cnt != edges_ref.len() {
                    stats[1] += 1;
                    if shown < 3 { shown += 1; println!("GLOBAL MISMATCH {} got nodes={nodes:?} edges={es:?}", desc()); }
                }
                // connected / bidirectional
                stats[7] += 2;
                let strongly = (0..n).all(|s| bfs(n, &adj, s).iter().all(|d| d.is_some()));
                if topo.connected() != strongly { stats[4] += 1; }
                if !topo.bidirectional() { stats[6] += 1; }
                for s in 0..n {
                    let dist = bfs(n, &adj, s);
                    let reach: BTreeSet<usize> = (0..n).filter(|&v| dist[v].is_some()).collect();
                    // spanned
                    stats[7] += 1;
                    let sp = Topology::spanned(sim.get(&names[s].into()).unwrap());
                    let (snodes, ses, scnt) = collect(&sp);
                    let sn: BTreeSet<String> = snodes.iter().cloned().collect();
                    let exp_sn: BTreeSet<String> = reach.iter().map(|&i| names[i].to_string()).collect();
                    // also check labels consistent: edge.to node must own edge.to gate
                    let label_ok = sp.edges().all(|e| e.to.gate().owner().path() == e.to.module().path() && e.from.gate().owner().path() == e.from.module().path());
                    if sn != exp_sn || snodes.len() != exp_sn.len() || ses != refset(&reach) || scnt != refset(&reach).len() || !label_ok {
                        stats[2] += 1;
                        if shown < 6 { shown += 1; println!("SPANNED MISMATCH {} root={} label_ok={label_ok} nodes={snodes:?}", desc(), names[s]); }
                    }
                    // dijkstra
                    stats[7] += 1;
                    let dj = topo.dijkstra(names[s]);
                    let keys: BTreeSet<String> = dj.keys().map(|k| k.to_string()).collect();
                    let exp_keys: BTreeSet<String> = reach.iter().filter(|&&v| v != s).map(|&i| names[i].to_string()).collect();
                    let mut ok = keys == exp_keys;
                    if ok {
                        for (k, e) in &dj {
                            let v = names.iter().position(|x| *x == k.as_str()).unwrap();
                            let w = names.iter().position(|x| *x == e.to.module().path().as_str()).unwrap();
                            let from_ok = e.from.module().path().as_str() == names[s];
                            let dw = bfs(n, &adj, w);
                            if !from_ok || dw[v].map(|x| x + 1) != dist[v] {
                                ok = false;
                            }
                        }
                    }
                    if !ok {
                        stats[3] += 1;
                        if shown < 9 { shown += 1; println!("DIJKSTRA MISMATCH {} src={}", desc(), names[s]); }
                    }
                }
                // filter_nodes all subsets
                for mask in 0..(1u32 << n) {
                    stats[7] += 1;
                    let keep: BTreeSet<usize> = (0..n).filter(|i| mask & (1 << i) != 0).collect();
                    let mut t = sim.globals().topology();
                    t.filter_nodes(|node| keep.contains(&names.iter().position(|x| *x == node.module().path().as_str()).unwrap()));
                    let (fnodes, fes, fcnt) = collect(&t);
                    let exp_nodes: Vec<String> = keep.iter().map(|&i| names[i].to_string()).collect();
                    if fnodes != exp_nodes || fes != refset(&keep) || fcnt != refset(&keep).len() {
                        stats[5] += 1;
                        if shown < 12 { shown += 1; println!("FILTER MISMATCH {} keep={keep:?} got nodes={fnodes:?}", desc()); }
                    }
                }
            }
        }
    }
    println!("C19 graphs={} queries={} bad: global={} spanned={} dijkstra={} connected={} filter={} bidir={}", stats[0], stats[7], stats[1], stats[2], stats[3], stats[4], stats[5], stats[6]);
}
