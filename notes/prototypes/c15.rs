// Throw-away design prototype for C15 (allocator safety + payload drop exactly once). Not framework code.
use des_cqueue::{verif_set_alloc_observer, CQueue, EventHandle, VerifAllocEvent};
use std::cell::RefCell;
use std::collections::BTreeMap;
use std::rc::Rc;
use std::time::Duration;

thread_local! {
    static DROPS: RefCell<Vec<u32>> = const { RefCell::new(Vec::new()) };
}

trait Payload: 'static {
    fn make(id: u32) -> Self;
    fn id(&self) -> u32;
    fn intact(&self) -> bool;
}
macro_rules! payload {
    ($name:ident, $inner:ty, $mk:expr, $ok:expr $(, $attr:meta)?) => {
        $(#[$attr])?
        struct $name {
            id: u32,
            data: $inner,
        }
        impl Payload for $name {
            fn make(id: u32) -> Self {
                let f: fn(u32) -> $inner = $mk;
                $name { id, data: f(id) }
            }
            fn id(&self) -> u32 {
                self.id
            }
            fn intact(&self) -> bool {
                let f: fn(u32, &$inner) -> bool = $ok;
                f(self.id, &self.data)
            }
        }
        impl Drop for $name {
            fn drop(&mut self) {
                DROPS.with(|d| d.borrow_mut().push(self.id));
            }
        }
    };
}
payload!(P8, u8, |i| i as u8, |i, d| *d == i as u8);
payload!(P64, u64, |i| i as u64 * 0x0101_0101_0101, |i, d| *d == i as u64 * 0x0101_0101_0101);
payload!(P24, [u8; 24], |i| [i as u8; 24], |i, d| d.iter().all(|b| *b == i as u8));
payload!(PA16, [u64; 4], |i| [i as u64; 4], |i, d| d.iter().all(|b| *b == i as u64), repr(align(16)));
payload!(PS, String, |i| format!("payload-{i}-{}", "x".repeat(i as usize % 7)), |i, d| *d == format!("payload-{i}-{}", "x".repeat(i as usize % 7)));
payload!(PZ, (), |_| (), |_, _| true);
payload!(PBIG, [u8; 300], |i| [i as u8; 300], |i, d| d.iter().all(|b| *b == i as u8));

#[derive(Clone, Copy, Debug)]
enum Op {
    Add(u64),
    Fetch,
    Cancel(usize),
}

#[derive(Default)]
struct Shadow {
    pages: BTreeMap<usize, usize>,
    live: BTreeMap<usize, usize>,
    errors: Vec<String>,
    allocs: usize,
    reuses: usize,
    freed_once: std::collections::BTreeSet<usize>,
}

fn run<P: Payload>(n: usize, t: u64, page: usize, hist: &[Op], node_align: usize) -> Result<(usize, usize, usize), String> {
    let shadow = Rc::new(RefCell::new(Shadow::default()));
    let sh = shadow.clone();
    verif_set_alloc_observer(Some(Box::new(move |ev| {
        let mut s = sh.borrow_mut();
        match ev {
            VerifAllocEvent::Page { addr, len } => {
                if addr % len != 0 {
                    s.errors.push(format!("page {addr:#x} not aligned to its size"));
                }
                s.pages.insert(addr, len);
            }
            VerifAllocEvent::PageFreed { addr } => {
                if s.pages.remove(&addr).is_none() {
                    s.errors.push(format!("page {addr:#x} freed but not owned"));
                }
            }
            VerifAllocEvent::Alloc { addr, size, req_size, req_align } => {
                s.allocs += 1;
                if s.freed_once.contains(&addr) {
                    s.reuses += 1;
                }
                if size < req_size {
                    s.errors.push("alloc smaller than requested".into());
                }
                if addr % req_align != 0 {
                    s.errors.push(format!("alloc {addr:#x} misaligned for {req_align}"));
                }
                let inpage = s.pages.range(..=addr).next_back().map_or(false, |(p, l)| addr + size <= p + l);
                if !inpage {
                    s.errors.push(format!("alloc {addr:#x}+{size} outside owned pages"));
                }
                let overlap = s.live.range(..addr + size).next_back().map_or(false, |(a, l)| a + l > addr);
                if overlap {
                    s.errors.push(format!("alloc {addr:#x}+{size} overlaps live allocation"));
                }
                s.live.insert(addr, size);
            }
            VerifAllocEvent::Dealloc { addr, size } => {
                match s.live.remove(&addr) {
                    Some(l) if l == size => {}
                    other => s.errors.push(format!("dealloc {addr:#x}+{size} does not match live {other:?}")),
                }
                s.freed_once.insert(addr);
            }
        }
    })));
    DROPS.with(|d| d.borrow_mut().clear());
    let mut expected_drops: Vec<u32> = vec![];
    let mut made = 0u32;
    {
        let mut q: CQueue<P> = CQueue::verif_with_page_size(n, Duration::from_nanos(t), page);
        let mut handles: Vec<Option<EventHandle<P>>> = vec![];
        let mut state: Vec<u8> = vec![]; // 0 live 1 fetched 2 cancelled
        for &op in hist {
            match op {
                Op::Add(d) => {
                    let id = made;
                    made += 1;
                    handles.push(Some(q.add(q.time() + Duration::from_nanos(d), P::make(id))));
                    state.push(0);
                }
                Op::Fetch => {
                    if q.is_empty() {
                        continue;
                    }
                    let (p, _) = q.fetch_next();
                    if !p.intact() {
                        return Err(format!("payload {} corrupted", p.id()));
                    }
                    if state[p.id() as usize] != 0 {
                        return Err(format!("payload {} fetched in state {}", p.id(), state[p.id() as usize]));
                    }
                    state[p.id() as usize] = 1;
                    // must not have been dropped yet
                    if DROPS.with(|d| d.borrow().contains(&p.id())) {
                        return Err(format!("payload {} dropped before caller dropped it", p.id()));
                    }
                    expected_drops.push(p.id());
                    drop(p);
                }
                Op::Cancel(j) => {
                    if j >= handles.len() {
                        continue;
                    }
                    if let Some(h) = handles[j].take() {
                        q.cancel(h);
                        if state[j] == 0 {
                            state[j] = 2;
                            expected_drops.push(j as u32);
                        }
                    }
                }
            }
            // after every op: drops so far must equal expected (as multiset)
            let mut got = DROPS.with(|d| d.borrow().clone());
            got.sort();
            let mut exp = expected_drops.clone();
            exp.sort();
            if got != exp {
                return Err(format!("drops {got:?} != expected {exp:?} after {op:?}"));
            }
            // allocated node must be aligned for node type
            let _ = node_align;
        }
        drop(q);
    }
    verif_set_alloc_observer(None);
    let mut got = DROPS.with(|d| d.borrow().clone());
    got.sort();
    let exp: Vec<u32> = (0..made).collect();
    if got != exp {
        return Err(format!("final drops {got:?} != all {exp:?}"));
    }
    let s = shadow.borrow();
    if !s.errors.is_empty() {
        return Err(s.errors[0].clone());
    }
    if !s.live.is_empty() || !s.pages.is_empty() {
        return Err(format!("leak: live allocs {} pages {}", s.live.len(), s.pages.len()));
    }
    Ok((s.allocs, s.reuses, s.freed_once.len()))
}

fn explore<P: Payload>(name: &str, page: usize, depth: usize) {
    let (n, t) = (2usize, 3u64);
    let ops_at = |k: usize| -> Vec<Op> {
        let mut v = vec![Op::Add(0), Op::Add(1), Op::Add(7), Op::Fetch];
        for j in 0..k {
            v.push(Op::Cancel(j));
        }
        v
    };
    let (mut runs, mut bad, mut reuse_runs, mut multi_page) = (0u64, 0u64, 0u64, 0u64);
    let mut first = None;
    // DFS over histories of exactly `depth`
    let mut stack: Vec<Vec<Op>> = vec![vec![]];
    while let Some(h) = stack.pop() {
        if h.len() == depth {
            runs += 1;
            match run::<P>(n, t, page, &h, std::mem::align_of::<P>()) {
                Ok((allocs, reuses, _)) => {
                    if reuses > 0 {
                        reuse_runs += 1;
                    }
                    if allocs > 0 {
                        multi_page += 0;
                    }
                }
                Err(e) => {
                    bad += 1;
                    if first.is_none() {
                        first = Some(format!("{h:?}: {e}"));
                    }
                }
            }
            continue;
        }
        let adds = h.iter().filter(|o| matches!(o, Op::Add(_))).count();
        for op in ops_at(adds) {
            let mut h2 = h.clone();
            h2.push(op);
            stack.push(h2);
        }
    }
    let _ = multi_page;
    println!("C15 {name:5} page={page:5} depth={depth} runs={runs} bad={bad} runs-with-reuse={reuse_runs} first={first:?}");
}

fn main() {
    let depth: usize = std::env::args().nth(1).map(|s| s.parse().unwrap()).unwrap_or(6);
    for page in [256usize, 512, 4096] {
        explore::<P8>("u8", page, depth);
        explore::<P64>("u64", page, depth);
        explore::<P24>("24B", page, depth);
        explore::<PA16>("al16", page, depth);
        explore::<PS>("str", page, depth);
        explore::<PZ>("zst", page, depth);
    }
    explore::<PBIG>("300B", 512, depth);
    explore::<PBIG>("300B", 4096, depth);
}
