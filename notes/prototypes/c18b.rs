// Throw-away design prototype for C18 part B (built simulation == description). Not framework code.
use des::net::ndl::*;
use des::prelude::*;
use std::collections::{BTreeMap, BTreeSet};
use std::panic::{catch_unwind, AssertUnwindSafe};

struct Sym(String);
impl Module for Sym {}

// ---- generator-side model -------------------------------------------------
#[derive(Clone, Debug)]
struct Acc {
    name: &'static str,
    idx: Option<usize>,
}
#[derive(Clone, Debug)]
struct Conn {
    a: Vec<Acc>,
    b: Vec<Acc>,
    link: bool,
}
#[derive(Clone, Debug)]
struct Sub {
    name: &'static str,
    size: Option<usize>,
    ty: String, // concrete type name (after substitution) for expectation
    ty_txt: String, // text in the document
}
#[derive(Clone, Debug, Default)]
struct Ty {
    name: String,
    header: String,
    inherit: Option<String>,
    gates: Vec<(&'static str, Option<usize>)>,
    subs: Vec<Sub>,
    conns: Vec<Conn>,
}

fn acc(s: &'static str) -> Vec<Acc> {
    s.split('/')
        .map(|p| {
            if let Some((n, r)) = p.split_once('[') {
                Acc { name: n, idx: Some(r.trim_end_matches(']').parse().unwrap()) }
            } else {
                Acc { name: p, idx: None }
            }
        })
        .collect()
}
fn acc_txt(a: &[Acc]) -> String {
    a.iter().map(|x| x.idx.map_or(x.name.to_string(), |i| format!("{}[{}]", x.name, i))).collect::<Vec<_>>().join("/")
}

fn yaml(types: &[Ty], entry: &str) -> String {
    let mut s = format!("entry: {entry}\nmodules:\n");
    for t in types {
        s.push_str(&format!("  \"{}\":\n", t.header));
        let mut any = false;
        if let Some(i) = &t.inherit {
            s.push_str(&format!("    inherit: {i}\n"));
            any = true;
        }
        if !t.gates.is_empty() {
            any = true;
            s.push_str("    gates:\n");
            for (g, n) in &t.gates {
                s.push_str(&format!("    - {}\n", n.map_or(g.to_string(), |n| format!("{g}[{n}]"))));
            }
        }
        if !t.subs.is_empty() {
            any = true;
            s.push_str("    submodules:\n");
            for sub in &t.subs {
                s.push_str(&format!("      \"{}\": \"{}\"\n", sub.size.map_or(sub.name.to_string(), |n| format!("{}[{n}]", sub.name)), sub.ty_txt));
            }
        }
        if !t.conns.is_empty() {
            any = true;
            s.push_str("    connections:\n");
            for c in &t.conns {
                s.push_str(&format!("    - peers:\n      - \"{}\"\n      - \"{}\"\n", acc_txt(&c.a), acc_txt(&c.b)));
                if c.link {
                    s.push_str("      link: L\n");
                }
            }
        }
        if !any {
            s.push_str("    gates: []\n");
        }
    }
    s.push_str("links:\n  L:\n    latency: 0.25\n    jitter: 0.0\n    bitrate: 1000\n    queuesize: \"77\"\n");
    s
}

// ---- reference expansion --------------------------------------------------
#[derive(Default, Debug, PartialEq)]
struct Expect {
    modules: BTreeMap<String, String>,                 // path -> symbol
    gates: BTreeMap<String, BTreeSet<(String, usize, usize)>>, // path -> (name,size,pos)
    conns: BTreeSet<(String, String, bool)>,            // (gate path a, gate path b) a<b, link?
}
fn resolve_ty<'a>(types: &'a [Ty], name: &str) -> &'a Ty {
    types.iter().find(|t| t.name == name).unwrap()
}
fn all_gates(types: &[Ty], t: &Ty) -> Vec<(&'static str, Option<usize>)> {
    let mut g = t.gates.clone();
    if let Some(p) = &t.inherit {
        g.extend(all_gates(types, resolve_ty(types, p)));
    }
    g
}
fn all_subs(types: &[Ty], t: &Ty) -> Vec<Sub> {
    let mut g = t.subs.clone();
    if let Some(p) = &t.inherit {
        g.extend(all_subs(types, resolve_ty(types, p)));
    }
    g
}
fn all_conns(types: &[Ty], t: &Ty) -> Vec<Conn> {
    let mut g = vec![];
    if let Some(p) = &t.inherit {
        g.extend(all_conns(types, resolve_ty(types, p)));
    }
    g.extend(t.conns.clone());
    g
}
fn join(path: &str, seg: &str) -> String {
    if path.is_empty() {
        seg.to_string()
    } else {
        format!("{path}.{seg}")
    }
}
// expand endpoint into list of gate paths
fn expand(types: &[Ty], t: &Ty, path: &str, accs: &[Acc]) -> Vec<String> {
    let a = &accs[0];
    if accs.len() == 1 {
        let (_, size) = all_gates(types, t).into_iter().find(|g| g.0 == a.name).unwrap();
        match (size, a.idx) {
            (None, None) => vec![join(path, a.name)],
            (Some(_), Some(i)) => vec![join(path, &format!("{}[{i}]", a.name))],
            (Some(n), None) => (0..n).map(|i| join(path, &format!("{}[{i}]", a.name))).collect(),
            _ => panic!("bad access"),
        }
    } else {
        let sub = all_subs(types, t).into_iter().find(|s| s.name == a.name).unwrap();
        let st = resolve_ty(types, &sub.ty);
        let idxs: Vec<Option<usize>> = match (sub.size, a.idx) {
            (None, None) => vec![None],
            (Some(_), Some(i)) => vec![Some(i)],
            (Some(n), None) => (0..n).map(Some).collect(),
            _ => panic!("bad access"),
        };
        let mut out = vec![];
        for i in idxs {
            let seg = i.map_or(a.name.to_string(), |i| format!("{}[{i}]", a.name));
            out.extend(expand(types, st, &join(path, &seg), &accs[1..]));
        }
        out
    }
}
fn instantiate(types: &[Ty], t: &Ty, path: &str, symbol: &str, ex: &mut Expect) {
    ex.modules.insert(path.to_string(), symbol.to_string());
    let mut gs = BTreeSet::new();
    for (g, n) in all_gates(types, t) {
        let size = n.unwrap_or(1);
        for k in 0..size {
            gs.insert((g.to_string(), size, k));
        }
    }
    ex.gates.insert(path.to_string(), gs);
    for sub in all_subs(types, t) {
        let st = resolve_ty(types, &sub.ty);
        match sub.size {
            None => instantiate(types, st, &join(path, sub.name), &sub.ty, ex),
            Some(n) => {
                for k in 0..n {
                    instantiate(types, st, &join(path, &format!("{}[{k}]", sub.name)), &sub.ty, ex)
                }
            }
        }
    }
    for c in all_conns(types, t) {
        let a = expand(types, t, path, &c.a);
        let b = expand(types, t, path, &c.b);
        assert_eq!(a.len(), b.len());
        for (x, y) in a.into_iter().zip(b) {
            let (x, y) = if x < y { (x, y) } else { (y, x) };
            ex.conns.insert((x, y, c.link));
        }
    }
}

fn observe(sim: &des::net::SimBuilder<()>) -> Expect {
    let mut ex = Expect::default();
    let paths: Vec<ObjectPath> = sim.nodes().collect();
    for p in paths {
        let m = sim.get(&p).unwrap();
        let sym = m.try_as_ref::<Sym>().map(|s| s.0.clone()).unwrap_or("?".into());
        ex.modules.insert(p.to_string(), sym);
        let mut gs = BTreeSet::new();
        for g in m.gates() {
            gs.insert((g.name().to_string(), g.size(), g.pos()));
            // peers: next gate from each direction -> record direct neighbours via path_iter when endpoint, else via kind Transit: use prev/next through iteration from endpoints only
            if let Some(mut it) = g.path_iter() {
                if let Some(con) = it.next() {
                    let a = g.path().to_string();
                    let b = con.endpoint.path().to_string();
                    let link = con.channel.as_ref().map(|c| {
                        let m = c.metrics();
                        assert_eq!(m.latency, Duration::from_millis(250));
                        assert_eq!(m.bitrate, 1000);
                        assert_eq!(m.drop_behaviour, ChannelDropBehaviour::Queue(Some(77)));
                        true
                    });
                    let (x, y) = if a < b { (a, b) } else { (b, a) };
                    ex.conns.insert((x, y, link.unwrap_or(false)));
                    // continue along the chain to pick up inner hops
                    let mut prev = con.endpoint.clone();
                    for con2 in it {
                        let a = prev.path().to_string();
                        let b = con2.endpoint.path().to_string();
                        let (x, y) = if a < b { (a, b) } else { (b, a) };
                        ex.conns.insert((x, y, con2.channel.is_some()));
                        prev = con2.endpoint.clone();
                    }
                }
            }
        }
        ex.gates.insert(p.to_string(), gs);
    }
    ex
}

fn main() {
    let (mut runs, mut bad, mut panics) = (0u64, 0u64, 0u64);
    let mut shown = 0;
    // feature bits
    for bits in 0u32..(1 << 11) {
        let f = |k: u32| bits & (1 << k) != 0;
        let mut types: Vec<Ty> = vec![];
        // Leaf
        let mut leaf = Ty { name: "Leaf".into(), header: "Leaf".into(), ..Default::default() };
        leaf.gates.push(("g", None));
        if f(0) {
            leaf.gates.push(("h", Some(2)));
        }
        types.push(leaf);
        // Leaf2 inherits Leaf
        let mut leaf2 = Ty { name: "Leaf2".into(), header: "Leaf2".into(), inherit: Some("Leaf".into()), ..Default::default() };
        leaf2.gates.push(("n", None));
        types.push(leaf2);
        // Mid (possibly generic)
        let generic = f(1);
        let inner_concrete = if f(2) { "Leaf2" } else { "Leaf" };
        let mut mid = Ty { name: "Mid".into(), header: if generic { "Mid(T <- Leaf)".into() } else { "Mid".into() }, ..Default::default() };
        mid.gates.push(("dn", Some(2)));
        mid.gates.push(("up", None));
        mid.subs.push(Sub { name: "s", size: None, ty: inner_concrete.into(), ty_txt: if generic { "T".into() } else { inner_concrete.into() } });
        if f(3) {
            mid.subs.push(Sub { name: "k", size: Some(2), ty: "Leaf".into(), ty_txt: "Leaf".into() });
        }
        if f(4) {
            mid.conns.push(Conn { a: acc("s/g"), b: acc("up"), link: f(10) });
        }
        if f(3) && f(5) {
            mid.conns.push(Conn { a: acc("k/g"), b: acc("dn"), link: false });
        }
        if f(3) && f(6) && !f(5) {
            mid.conns.push(Conn { a: acc("k[1]/g"), b: acc("dn[0]"), link: true });
        }
        types.push(mid);
        // Main
        let mut main = Ty { name: "Main".into(), header: "Main".into(), ..Default::default() };
        main.subs.push(Sub { name: "m", size: None, ty: "Mid".into(), ty_txt: if generic { format!("Mid({inner_concrete})") } else { "Mid".into() } });
        main.subs.push(Sub { name: "a", size: None, ty: "Leaf".into(), ty_txt: "Leaf".into() });
        main.subs.push(Sub { name: "c", size: Some(2), ty: if f(7) { "Leaf2".into() } else { "Leaf".into() }, ty_txt: if f(7) { "Leaf2".into() } else { "Leaf".into() } });
        if f(8) {
            main.conns.push(Conn { a: acc("a/g"), b: acc("m/up"), link: false });
        }
        if f(9) {
            main.conns.push(Conn { a: acc("c/g"), b: acc("m/dn"), link: f(10) });
        }
        if f(0) && f(9) {
            main.conns.push(Conn { a: acc("c[0]/h[1]"), b: acc("a/h[0]"), link: false });
        }
        types.push(main);
        // with generic Mid and inner Leaf2 the expectation of Mid's own type resolution uses inner_concrete
        let doc = yaml(&types, "Main");
        let mut ex = Expect::default();
        instantiate(&types, resolve_ty(&types, "Main"), "", "Main", &mut ex);
        let res = catch_unwind(AssertUnwindSafe(|| -> Result<Expect, String> {
            let def: Def = serde_yml::from_str(&doc).map_err(|e| format!("parse {e}"))?;
            let mut sim = Sim::new(());
            let reg = Registry::new()
                .symbol_fn("Main", |_| Sym("Main".into()))
                .symbol_fn("Mid", |_| Sym("Mid".into()))
                .symbol_fn("Leaf", |_| Sym("Leaf".into()))
                .symbol_fn("Leaf2", |_| Sym("Leaf2".into()));
            sim.nodes_from_ndl(&def, reg).map_err(|e| format!("build {e}"))?;
            Ok(observe(&sim))
        }));
        runs += 1;
        match res {
            Err(_) => {
                panics += 1;
                bad += 1;
                if shown < 3 {
                    shown += 1;
                    println!("PANIC bits={bits:b}\n{doc}");
                }
            }
            Ok(Err(e)) => {
                bad += 1;
                if shown < 3 {
                    shown += 1;
                    println!("ERR {e} bits={bits:b}\n{doc}");
                }
            }
            Ok(Ok(got)) => {
                if got != ex {
                    bad += 1;
                    if shown < 3 {
                        shown += 1;
                        println!("MISMATCH bits={bits:b}\n{doc}\n got modules={:?}\n exp modules={:?}\n got conns={:?}\n exp conns={:?}\n gates equal={}", got.modules, ex.modules, got.conns, ex.conns, got.gates == ex.gates);
                    }
                }
            }
        }
    }
    println!("C18b runs={runs} bad={bad} panics={panics}");
}
