// Throw-away design prototype for C09 (shutdown / restart timelines). Not framework code.
use des::prelude::*;
use des::time::{sleep, sleep_until};
use std::collections::BTreeSet;
use std::sync::atomic::{AtomicIsize, Ordering::SeqCst};
use std::sync::{Arc, Mutex};

type Log = Arc<Mutex<Vec<String>>>;
static LIVE_TASK: AtomicIsize = AtomicIsize::new(0);
struct TaskTok;
impl TaskTok {
    fn new() -> Self {
        LIVE_TASK.fetch_add(1, SeqCst);
        TaskTok
    }
}
impl Drop for TaskTok {
    fn drop(&mut self) {
        LIVE_TASK.fetch_sub(1, SeqCst);
    }
}
fn now2() -> u64 {
    (SimTime::now().as_millis() / 500) as u64
} // half-second units
fn lg(l: &Log, s: String) {
    l.lock().unwrap().push(format!("{s}@{}", now2()));
}
fn hs(h: u64) -> Duration {
    Duration::from_millis(h * 500)
}

#[derive(Clone, Debug)]
struct Plan {
    s1: u64,             // first shutdown time (half-seconds)
    r1: Option<u64>,     // restart delay
    by_task: bool,       // shutdown requested from a task instead of a handler
    d1: u64,             // incarnation-1 task deadline (absolute)
    d2: u64,             // incarnation-2 task sleep (relative)
    s2: Option<(u64, Option<u64>)>, // second shutdown: (delay after restart, restart delay)
    msgs: Vec<u64>,      // P -> V arrival times
    transit: bool,       // P sends to Q through V's transit gate instead of to V
}

struct V {
    log: Log,
    plan: Plan,
    inc: u32,
}
impl Module for V {
    fn reset(&mut self) {
        lg(&self.log, "V.reset".into());
    }
    fn at_sim_start(&mut self, _: usize) {
        self.inc += 1;
        let inc = self.inc;
        lg(&self.log, format!("V.start{inc}"));
        let l = self.log.clone();
        let p = self.plan.clone();
        if inc == 1 {
            let tok = TaskTok::new();
            tokio::spawn(async move {
                let _t = tok;
                sleep_until(SimTime::from_duration(hs(p.d1))).await;
                lg(&l, "V.task1".into());
            });
            if self.plan.by_task {
                let s1 = self.plan.s1;
                let r1 = self.plan.r1;
                let l = self.log.clone();
                tokio::spawn(async move {
                    sleep_until(SimTime::from_duration(hs(s1))).await;
                    lg(&l, "V.req1".into());
                    match r1 {
                        None => current().shutdown(),
                        Some(r) => current().shutdow_and_restart_in(hs(r)),
                    }
                });
            } else {
                schedule_at(Message::default().kind(90), SimTime::from_duration(hs(self.plan.s1)));
            }
        } else {
            let tok = TaskTok::new();
            let incn = inc;
            tokio::spawn(async move {
                let _t = tok;
                sleep(hs(p.d2)).await;
                lg(&l, format!("V.task{incn}"));
            });
            if inc == 2 {
                if let Some((d, _)) = self.plan.s2 {
                    schedule_in(Message::default().kind(91), hs(d));
                }
            }
        }
    }
    fn handle_message(&mut self, m: Message) {
        match m.header().kind {
            90 => {
                lg(&self.log, "V.req1".into());
                match self.plan.r1 {
                    None => current().shutdown(),
                    Some(r) => current().shutdow_and_restart_in(hs(r)),
                }
            }
            91 => {
                lg(&self.log, "V.req2".into());
                match self.plan.s2.unwrap().1 {
                    None => current().shutdown(),
                    Some(r) => current().shutdow_and_restart_in(hs(r)),
                }
            }
            k => {
                lg(&self.log, format!("V.msg{k}"));
                send(Message::default().kind(k), "port");
            }
        }
    }
}
struct P {
    log: Log,
    plan: Plan,
}
impl Module for P {
    fn at_sim_start(&mut self, _: usize) {
        for (i, &a) in self.plan.msgs.iter().enumerate() {
            send_at(Message::default().kind(i as u16), "port", SimTime::from_duration(hs(a)));
        }
    }
    fn handle_message(&mut self, m: Message) {
        lg(&self.log, format!("P.echo{}", m.header().kind));
    }
}
struct Q {
    log: Log,
}
impl Module for Q {
    fn handle_message(&mut self, m: Message) {
        lg(&self.log, format!("Q.msg{}", m.header().kind));
    }
}

fn expected(p: &Plan) -> (BTreeSet<String>, BTreeSet<String>) {
    let mut req = BTreeSet::new();
    let mut opt = BTreeSet::new();
    let e = |s: &str, t: u64| format!("{s}@{t}");
    req.insert(e("V.start1", 0));
    // windows: active [0, s1], inert (s1, r) , active [r, s2abs], inert (s2abs, r2abs), active from r2abs
    let s1 = p.s1;
    req.insert(e("V.req1", s1));
    req.insert(e("V.reset", s1));
    let mut windows: Vec<(u64, Option<u64>)> = vec![(0, Some(s1))]; // (from, to)
    let mut restart1 = None;
    if let Some(r) = p.r1 {
        let r_abs = s1 + r;
        restart1 = Some(r_abs);
        req.insert(e("V.start2", r_abs));
        match p.s2 {
            None => {
                windows.push((r_abs, None));
                req.insert(e("V.task2", r_abs + p.d2));
            }
            Some((d, r2)) => {
                let s2 = r_abs + d;
                req.insert(e("V.req2", s2));
                req.insert(e("V.reset", s2)); // same string possibly at different time
                windows.push((r_abs, Some(s2)));
                let t2 = r_abs + p.d2;
                if t2 < s2 {
                    req.insert(e("V.task2", t2));
                } else if t2 == s2 {
                    opt.insert(e("V.task2", t2));
                }
                if let Some(r2) = r2 {
                    let r2_abs = s2 + r2;
                    req.insert(e("V.start3", r2_abs));
                    req.insert(e("V.task3", r2_abs + p.d2));
                    windows.push((r2_abs, None));
                }
            }
        }
    }
    // task1
    if p.d1 < s1 {
        req.insert(e("V.task1", p.d1));
    } else if p.d1 == s1 {
        opt.insert(e("V.task1", p.d1));
    }
    // messages
    for (i, &a) in p.msgs.iter().enumerate() {
        let mut state = 0; // 0 no, 1 yes, 2 tie
        for (k, &(from, to)) in windows.iter().enumerate() {
            let after_from = if k == 0 { true } else { a > from };
            let at_from = k != 0 && a == from;
            let before_to = to.map_or(true, |t| a < t);
            let at_to = to.map_or(false, |t| a == t);
            if (after_from || at_from) && (before_to || at_to) {
                if at_from || at_to {
                    if state == 0 {
                        state = 2;
                    }
                } else {
                    state = 1;
                }
            }
        }
        let (va, pa) = if p.transit { (format!("Q.msg{i}"), None) } else { (format!("V.msg{i}"), Some(format!("P.echo{i}"))) };
        match state {
            1 => {
                req.insert(e(&va, a));
                if let Some(pa) = pa {
                    req.insert(e(&pa, a));
                }
            }
            2 => {
                opt.insert(e(&va, a));
                if let Some(pa) = pa {
                    opt.insert(e(&pa, a));
                }
            }
            _ => {}
        }
    }
    let _ = restart1;
    (req, opt)
}

fn main() {
    let (mut runs, mut bad, mut ties) = (0u64, 0u64, 0u64);
    let mut shown = 0;
    let times = [1u64, 3, 4, 5, 6, 8, 9, 11, 13, 16];
    for s1 in [4u64, 6] {
        for r1 in [None, Some(0u64), Some(2), Some(5)] {
            for by_task in [false, true] {
                for d1 in [2u64, 4, 6, 7, 11, 30] {
                    for d2 in [1u64, 3] {
                        for s2 in [None, Some((2u64, None)), Some((2u64, Some(2u64))), Some((3u64, Some(0u64)))] {
                            if r1.is_none() && s2.is_some() {
                                continue;
                            }
                            for transit in [false, true] {
                                // message sets: all subsets of size <= 2 of times
                                let mut sets: Vec<Vec<u64>> = vec![vec![]];
                                for (i, &a) in times.iter().enumerate() {
                                    sets.push(vec![a]);
                                    for &b in &times[i + 1..] {
                                        sets.push(vec![a, b]);
                                    }
                                }
                                for msgs in sets {
                                    let plan = Plan { s1, r1, by_task, d1, d2, s2, msgs, transit };
                                    let log: Log = Default::default();
                                    LIVE_TASK.store(0, SeqCst);
                                    let mut sim = Sim::new(());
                                    sim.node("v", V { log: log.clone(), plan: plan.clone(), inc: 0 });
                                    sim.node("p", P { log: log.clone(), plan: plan.clone() });
                                    sim.node("q", Q { log: log.clone() });
                                    let pg = sim.gate("p", "port");
                                    let vg = sim.gate("v", "port");
                                    let qg = sim.gate("q", "port");
                                    if transit {
                                        pg.connect(vg.clone(), None);
                                        vg.connect(qg, None);
                                    } else {
                                        pg.connect(vg, None);
                                    }
                                    let r = Builder::seeded(1).quiet().max_time(100.0.into()).build(sim.freeze()).run();
                                    let okrun = r.is_ok();
                                    drop(r);
                                    runs += 1;
                                    let got: Vec<String> = log.lock().unwrap().clone();
                                    let gotset: BTreeSet<String> = got.iter().cloned().collect();
                                    let (req, opt) = expected(&plan);
                                    if !opt.is_empty() {
                                        ties += 1;
                                    }
                                    let dup = gotset.len() != got.len() && !(got.iter().filter(|s| s.starts_with("V.reset")).count() == 2 && gotset.len() + 1 == got.len());
                                    let missing: Vec<&String> = req.difference(&gotset).collect();
                                    let extra: Vec<&String> = gotset.iter().filter(|g| !req.contains(*g) && !opt.contains(*g)).collect();
                                    // echo consistency
                                    let echo_ok = transit || got.iter().filter(|s| s.starts_with("V.msg")).all(|s| gotset.contains(&s.replace("V.msg", "P.echo")));
                                    let leak = LIVE_TASK.load(SeqCst) != 0;
                                    if !okrun || dup || !missing.is_empty() || !extra.is_empty() || !echo_ok || leak {
                                        bad += 1;
                                        if shown < 6 {
                                            shown += 1;
                                            println!("C09 MISMATCH {plan:?}\n  got={got:?}\n  missing={missing:?} extra={extra:?} dup={dup} echo_ok={echo_ok} leak={leak} okrun={okrun}");
                                        }
                                    }
                                }
                            }
                        }
                    }
                }
            }
        }
    }
    println!("C09 runs={runs} bad={bad} with-ties={ties}");
}
