// Throw-away design prototype for C16 (message bodies), explicit enumeration of op histories. Not framework code.
use des::prelude::*;
use std::sync::atomic::{AtomicIsize, Ordering::SeqCst};
static LIVE: AtomicIsize = AtomicIsize::new(0);
macro_rules! tracked { ($name:ident, $inner:ty, $len:expr) => {
    #[derive(Debug, PartialEq)] struct $name($inner);
    impl $name { fn new(v: $inner) -> Self { LIVE.fetch_add(1, SeqCst); $name(v) } }
    impl Clone for $name { fn clone(&self) -> Self { $name::new(self.0.clone()) } }
    impl Drop for $name { fn drop(&mut self) { LIVE.fetch_sub(1, SeqCst); } }
    impl MessageBody for $name { fn byte_len(&self) -> usize { $len } }
}}
tracked!(A, u32, 4); tracked!(B, i32, 4); tracked!(C, [u8; 4], 4); tracked!(D, String, 7); tracked!(Z, (), 0);
#[derive(Debug)] struct NC(u32); // non clonable
impl NC { fn new(v: u32) -> Self { LIVE.fetch_add(1, SeqCst); NC(v) } }
impl Drop for NC { fn drop(&mut self) { LIVE.fetch_sub(1, SeqCst); } }
impl MessageBody for NC { fn byte_len(&self) -> usize { 9 } }

#[derive(Clone, Copy, Debug, PartialEq)] enum Ty { A, B, C, D, Z, NC }
const TYS: [Ty; 6] = [Ty::A, Ty::B, Ty::C, Ty::D, Ty::Z, Ty::NC];
#[derive(Clone, Copy, Debug)] enum Op { Set(Ty), Clone, Cast(Ty), Content(Ty), Can(Ty), DropOne }
fn blen(t: Ty) -> usize { match t { Ty::D => 7, Ty::Z => 0, Ty::NC => 9, _ => 4 } }

fn main() {
    let depth: usize = std::env::args().nth(1).map(|s| s.parse().unwrap()).unwrap_or(4);
    let mut ops = vec![]; for t in TYS { ops.push(Op::Set(t)); ops.push(Op::Cast(t)); ops.push(Op::Content(t)); ops.push(Op::Can(t)); } ops.push(Op::Clone); ops.push(Op::DropOne);
    let mut idx = vec![0usize; depth]; let (mut runs, mut bad) = (0u64, 0u64);
    loop {
        let hist: Vec<Op> = idx.iter().map(|&i| ops[i]).collect();
        LIVE.store(0, SeqCst);
        let mut msgs: Vec<Message> = vec![Message::default()]; let mut model: Vec<Option<(Ty, u32)>> = vec![None]; let mut ctr = 1u32; let mut ok = true;
        for op in &hist {
            if msgs.is_empty() { msgs.push(Message::default()); model.push(None); }
            let last = msgs.len() - 1;
            match *op {
                Op::Set(t) => { ctr += 1; let v = ctr; match t { Ty::A => msgs[last].set_content(A::new(v)), Ty::B => msgs[last].set_content(B::new(v as i32)), Ty::C => msgs[last].set_content(C::new(v.to_le_bytes())), Ty::D => msgs[last].set_content(D::new(format!("{v:07}"))), Ty::Z => msgs[last].set_content(Z::new(())), Ty::NC => msgs[last].set_content_non_clonable(NC::new(v)) } model[last] = Some((t, v)); }
                Op::Clone => { let c = msgs[last].try_clone(); let clonable = model[last].map_or(true, |m| m.0 != Ty::NC); match c { Some(c) => { if !clonable { ok = false; } msgs.push(c); let m = model[last]; model.push(m); } None => { if clonable { ok = false; } } } }
                Op::Can(t) => { let got = match t { Ty::A => msgs[last].can_cast::<A>(), Ty::B => msgs[last].can_cast::<B>(), Ty::C => msgs[last].can_cast::<C>(), Ty::D => msgs[last].can_cast::<D>(), Ty::Z => msgs[last].can_cast::<Z>(), Ty::NC => msgs[last].can_cast::<NC>() }; if got != (model[last].map(|m| m.0) == Some(t)) { ok = false; } }
                Op::Content(t) => { let exp = model[last].filter(|m| m.0 == t); let got: Option<u32> = match t { Ty::A => msgs[last].try_content::<A>().map(|a| a.0), Ty::B => msgs[last].try_content::<B>().map(|a| a.0 as u32), Ty::C => msgs[last].try_content::<C>().map(|a| u32::from_le_bytes(a.0)), Ty::D => msgs[last].try_content::<D>().map(|a| a.0.parse().unwrap()), Ty::Z => msgs[last].try_content::<Z>().map(|_| 0), Ty::NC => msgs[last].try_content::<NC>().map(|a| a.0) }; let expv = exp.map(|m| if t == Ty::Z { 0 } else { m.1 }); if got != expv { ok = false; } }
                Op::Cast(t) => { let m = msgs.pop().unwrap(); let mm = model.pop().unwrap(); let exp = mm.filter(|x| x.0 == t);
                    macro_rules! cast { ($T:ty, $f:expr) => { match m.try_cast::<$T>() { Ok((v, _h)) => { if exp.is_none() { ok = false; } else if t != Ty::Z && $f(&v) != exp.unwrap().1 { ok = false; } drop(v); } Err(back) => { if exp.is_some() { ok = false; } msgs.push(back); model.push(mm); } } } }
                    match t { Ty::A => cast!(A, |v: &A| v.0), Ty::B => cast!(B, |v: &B| v.0 as u32), Ty::C => cast!(C, |v: &C| u32::from_le_bytes(v.0)), Ty::D => cast!(D, |v: &D| v.0.parse::<u32>().unwrap()), Ty::Z => cast!(Z, |_v: &Z| 0u32), Ty::NC => cast!(NC, |v: &NC| v.0) } }
                Op::DropOne => { msgs.pop(); model.pop(); }
            }
            for (m, mm) in msgs.iter().zip(&model) { let bl = mm.map_or(0, |x| blen(x.0)); if m.length() != 64 + bl { ok = false; } }
            if LIVE.load(SeqCst) != model.iter().filter(|m| m.is_some()).count() as isize { ok = false; }
        }
        drop(msgs); if LIVE.load(SeqCst) != 0 { ok = false; }
        runs += 1; if !ok { bad += 1; if bad < 5 { println!("C16 MISMATCH {hist:?}"); } }
        let mut i = 0; loop { if i == depth { break; } idx[i] += 1; if idx[i] < ops.len() { break; } idx[i] = 0; i += 1; } if i == depth { break; }
    }
    println!("C16 depth={depth} ops={} runs={runs} bad={bad}", ops.len());
}
