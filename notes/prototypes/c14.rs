// Throw-away design prototype for C14 (processing elements). Not framework code.
use des::net::processing::*;
use des::prelude::*;
use std::sync::{Arc, Mutex};
type Log = Arc<Mutex<Vec<String>>>;

#[derive(Clone, Copy, Debug, PartialEq)]
enum Kind { Pass, Modify, Consume1, Consume2, SendOnStart }
struct Pe { idx: usize, kind: Kind, log: Log }
impl ProcessingElement for Pe {
    fn event_start(&mut self) {
        self.log.lock().unwrap().push(format!("s{}", self.idx));
        if self.kind == Kind::SendOnStart && SimTime::now() == SimTime::from_duration(Duration::from_secs(1)) { schedule_in(Message::default().kind(50 + self.idx as u16), Duration::from_secs(10)); }
    }
    fn event_end(&mut self) { self.log.lock().unwrap().push(format!("e{}", self.idx)); }
    fn incoming(&mut self, mut m: Message) -> Option<Message> {
        self.log.lock().unwrap().push(format!("i{}:{}", self.idx, m.header().kind));
        match self.kind {
            Kind::Modify => { m.header_mut().id += 1; Some(m) }
            Kind::Consume1 if m.header().kind == 1 => None,
            Kind::Consume2 if m.header().kind == 2 => None,
            _ => Some(m),
        }
    }
}
struct M { log: Log, local: Vec<Kind>, base: usize }
impl Module for M {
    fn at_sim_start(&mut self, _s: usize) {
        self.log.lock().unwrap().push("H:start".into());
        schedule_in(Message::default().kind(1), Duration::from_secs(1));
        schedule_in(Message::default().kind(2), Duration::from_secs(2));
        let l = self.log.clone();
        tokio::spawn(async move { des::time::sleep(Duration::from_secs(3)).await; l.lock().unwrap().push("H:task".into()); });
    }
    fn handle_message(&mut self, m: Message) { self.log.lock().unwrap().push(format!("H:msg{}:id{}", m.header().kind, m.header().id)); }
    fn at_sim_end(&mut self) -> Result<(), RuntimeError> { self.log.lock().unwrap().push("H:end".into()); Ok(()) }
    fn stack(&self, mut s: ProcessingStack) -> ProcessingStack {
        for (k, kind) in self.local.iter().enumerate() { s.append(Pe { idx: self.base + k, kind: *kind, log: self.log.clone() }); }
        s
    }
}
fn main() {
    let kinds = [Kind::Pass, Kind::Modify, Kind::Consume1, Kind::Consume2, Kind::SendOnStart];
    let (mut runs, mut bad) = (0u64, 0u64);
    // stacks: global part (0..=2 elements) + local part (0..=2 elements)
    let mut stacks: Vec<Vec<Kind>> = vec![vec![]];
    for a in kinds { stacks.push(vec![a]); for b in kinds { stacks.push(vec![a, b]); } }
    for g in &stacks { for l in &stacks {
        let log: Log = Default::default();
        let mut sim = Sim::new(());
        let (gg, lg) = (g.clone(), log.clone());
        sim.set_stack(move || { let mut s = ProcessingStack::default(); for (k, kind) in gg.iter().enumerate() { s.append(Pe { idx: k, kind: *kind, log: lg.clone() }); } s });
        sim.node("m", M { log: log.clone(), local: l.clone(), base: g.len() });
        let r = Builder::seeded(1).quiet().build(sim.freeze()).run();
        runs += 1;
        let all: Vec<Kind> = g.iter().chain(l.iter()).cloned().collect();
        let n = all.len();
        // expected events: start, msg1@1, msg2@2, task wake@3, [late messages from SendOnStart at 11s, one per such element, in element order], end
        let mut exp: Vec<String> = vec![];
        let bracket = |exp: &mut Vec<String>, msg: Option<(u16, u16)>, body: &str| {
            let mut cur = msg;
            for i in 0..n {
                exp.push(format!("s{i}"));
                if let Some((kind, id)) = cur {
                    exp.push(format!("i{i}:{kind}"));
                    cur = match all[i] { Kind::Modify => Some((kind, id + 1)), Kind::Consume1 if kind == 1 => None, Kind::Consume2 if kind == 2 => None, _ => Some((kind, id)) };
                }
            }
            if msg.is_some() { if let Some((kind, id)) = cur { exp.push(format!("H:msg{kind}:id{id}")); } } else if !body.is_empty() { exp.push(body.to_string()); }
            for i in (0..n).rev() { exp.push(format!("e{i}")); }
        };
        bracket(&mut exp, None, "H:start");
        bracket(&mut exp, Some((1, 0)), "");
        bracket(&mut exp, Some((2, 0)), "");
        bracket(&mut exp, None, "H:task");
        for i in 0..n { if all[i] == Kind::SendOnStart { bracket(&mut exp, Some((50 + i as u16, 0)), ""); } }
        bracket(&mut exp, None, "H:end");
        let got = log.lock().unwrap().clone();
        if got != exp || r.is_err() { bad += 1; if bad < 4 { println!("C14 MISMATCH global={g:?} local={l:?}\n got={got:?}\n exp={exp:?}"); } }
    }}
    println!("C14 runs={runs} bad={bad}");
}
