// Throw-away probe: a task that yields inside an event.
use des::prelude::*;
use des::time::sleep;
use std::sync::{Arc, Mutex};
struct Mo { log: Arc<Mutex<Vec<String>>>, yields: usize }
impl Module for Mo {
    fn at_sim_start(&mut self, _: usize) {
        let l = self.log.clone(); let y = self.yields;
        tokio::spawn(async move {
            sleep(Duration::from_secs(1)).await;
            for _ in 0..y { tokio::task::yield_now().await; }
            l.lock().unwrap().push(format!("after-yield@{}", SimTime::now()));
        });
        schedule_in(Message::default(), Duration::from_secs(5));
    }
}
fn main() {
    for y in [0, 1, 2] {
        let log: Arc<Mutex<Vec<String>>> = Default::default();
        let mut sim = Sim::new(());
        sim.node("m", Mo { log: log.clone(), yields: y });
        let _ = Builder::seeded(1).quiet().build(sim.freeze()).run();
        println!("yields={y}: {:?}", log.lock().unwrap());
    }
}
