// Throw-away design prototype for C13 (panic containment, differential vs "falls silent"). Not framework code.
use des::net::module::Stereotyp;
use des::prelude::*;
use std::sync::{Arc, Mutex};
type Log = Arc<Mutex<Vec<String>>>;
fn lg(l: &Log, s: String) { l.lock().unwrap().push(format!("{}@{}", s, SimTime::now().as_millis())); }

#[derive(Clone, Copy, PartialEq, Debug)] enum Where { None, Start(usize), Msg(u32), End, Task }
struct P { log: Log, name: &'static str, fault: Where, silent_variant: bool, n: u32, silent: bool, catching: bool, out: bool }
impl Module for P {
    fn num_sim_start_stages(&self) -> usize { 2 }
    fn at_sim_start(&mut self, st: usize) {
        if self.catching { current().set_stereotyp(Stereotyp { on_panic_catch: true, ..Default::default() }); }
        if self.silent { return; }
        lg(&self.log, format!("{}:start{st}", self.name));
        if st == 0 { schedule_in(Message::default().kind(9), Duration::from_secs(1)); }
        if self.fault == Where::Start(st) { if self.silent_variant { self.silent = true; } else { panic!("boom") } }
        if st == 1 && self.fault == Where::Task { let sv = self.silent_variant; let h = tokio::spawn(async move { des::time::sleep(Duration::from_secs(2)).await; if !sv { panic!("taskboom") } }); current().join(h); }
    }
    fn handle_message(&mut self, m: Message) {
        if self.silent { return; }
        self.n += 1;
        lg(&self.log, format!("{}:k{}", self.name, m.header().kind));
        if m.header().kind == 9 {
            if self.out { send(Message::default().kind(2), "out"); }
            if self.n < 12 { schedule_in(Message::default().kind(9), Duration::from_secs(1)); }
            if self.fault == Where::Msg(self.n) { if self.silent_variant { self.silent = true; } else { panic!("boom") } }
        }
    }
    fn at_sim_end(&mut self) -> Result<(), RuntimeError> { if self.silent { return Ok(()); } lg(&self.log, format!("{}:end", self.name)); if self.fault == Where::End && !self.silent_variant { panic!("endboom") } Ok(()) }
}
fn run(faults: [(Where, bool); 2], silent_variant: bool) -> (Vec<String>, Vec<String>, bool) {
    let log: Log = Default::default();
    let mut sim = Sim::new(());
    sim.node("a", P { log: log.clone(), name: "a", fault: Where::None, silent_variant: false, n: 0, silent: false, catching: false, out: true });
    sim.node("f", P { log: log.clone(), name: "f", fault: faults[0].0, silent_variant, n: 0, silent: false, catching: faults[0].1, out: true });
    sim.node("g", P { log: log.clone(), name: "g", fault: faults[1].0, silent_variant, n: 0, silent: false, catching: faults[1].1, out: true });
    sim.node("b", P { log: log.clone(), name: "b", fault: Where::None, silent_variant: false, n: 0, silent: false, catching: false, out: false });
    let ch = || Some(Channel::new(ChannelMetrics::new(0, Duration::from_millis(300), Duration::ZERO, ChannelDropBehaviour::Drop)));
    sim.gate("a", "out").connect(sim.gate("b", "in1"), None);
    sim.gate("f", "out").connect(sim.gate("b", "in2"), ch());
    sim.gate("g", "out").connect(sim.gate("b", "in3"), ch());
    let r = catch_unwind_run(sim);
    let healthy: Vec<String> = log.lock().unwrap().iter().filter(|s| !s.starts_with("f:") && !s.starts_with("g:")).cloned().collect();
    (healthy, r.0, r.1)
}
fn catch_unwind_run(sim: des::net::SimBuilder<()>) -> (Vec<String>, bool) {
    let r = std::panic::catch_unwind(std::panic::AssertUnwindSafe(|| Builder::seeded(1).quiet().max_time(8.0.into()).build(sim.freeze()).run()));
    match r {
        Err(_) => (vec!["ABORT".into()], true),
        Ok(Ok(_)) => (vec![], false),
        Ok(Err(e)) => { let mut v: Vec<String> = e.iter().map(|x| x.to_string().replace("module '", "").replace("' panicked", "").split(':').next().unwrap().to_string()).collect(); v.sort(); (v, false) }
    }
}
fn main() {
    let places = [Where::None, Where::Start(0), Where::Start(1), Where::Msg(1), Where::Msg(2), Where::Msg(3), Where::End, Where::Task];
    let (mut runs, mut bad) = (0u64, 0u64);
    for &f in &places { for &g in &places { for cf in [false, true] { for cg in [false, true] {
        if f == Where::None && g == Where::None { continue; }
        let (h1, errs, aborted) = run([(f, cf), (g, cg)], false);
        let (h2, _, _) = run([(f, cf), (g, cg)], true);
        runs += 1;
        let mut exp: Vec<String> = vec![];
        // callback panics: reported unless catching; joined-task panics: ambiguous for catching -> only require report when non-catching
        let mut optional: Vec<String> = vec![];
        for (name, w, c) in [("f", f, cf), ("g", g, cg)] {
            match w { Where::None => {}, Where::Task => { if c { optional.push(name.into()); } else { exp.push(name.into()); } }, _ => if !c { exp.push(name.into()) } }
        }
        exp.sort();
        let errs_ok = exp.iter().all(|e| errs.contains(e)) && errs.iter().all(|e| exp.contains(e) || optional.contains(e));
        if aborted || h1 != h2 || !errs_ok { bad += 1; if bad < 5 { println!("C13 MISMATCH f={f:?}/{cf} g={g:?}/{cg} aborted={aborted} equal={} errs={errs:?} exp={exp:?} optional={optional:?}", h1 == h2); } }
    }}}}
    // follow-up clean run in the same process
    let (h, errs, _) = run([(Where::None, false), (Where::None, false)], false);
    println!("C13 runs={runs} bad={bad} follow-up: {} entries errs={errs:?}", h.len());
}
