// Throw-away design prototype for C10 (stepping). Not framework code.
use des::prelude::*;
use std::panic::{catch_unwind, AssertUnwindSafe};
use std::sync::{Arc, Mutex};

type Log = Arc<Mutex<Vec<(u32, u128)>>>;
struct App {
    log: Log,
    prog: Arc<Vec<Vec<(u32, u64)>>>,
}
impl Application for App {
    type EventSet = Ev;
    type Lifecycle = ();
}
#[derive(Debug)]
struct Ev(u32);
impl Event<App> for Ev {
    fn handle(self, rt: &mut Runtime<App>) {
        rt.app.log.lock().unwrap().push((self.0, SimTime::now().as_nanos()));
        let prog = rt.app.prog.clone();
        if (self.0 as usize) < prog.len() {
            for &(c, d) in &prog[self.0 as usize] {
                rt.add_event_in(Ev(c), Duration::from_nanos(d));
            }
        }
    }
}

// reference scheduler with external injections: returns full order
struct Ref {
    pending: Vec<(u128, u8, u64, u32)>,
    seq: u64,
    cur: u128,
    out: Vec<(u32, u128)>,
}
impl Ref {
    fn add(&mut self, id: u32, t: u128) {
        let class = if t == self.cur { 0 } else { 1 };
        self.pending.push((t, class, self.seq, id));
        self.seq += 1;
    }
    fn next_time(&self) -> Option<u128> {
        self.pending.iter().map(|p| p.0).min()
    }
    fn step(&mut self, prog: &Vec<Vec<(u32, u64)>>) {
        let i = (0..self.pending.len()).min_by_key(|&i| (self.pending[i].0, self.pending[i].1, self.pending[i].2)).unwrap();
        let (t, _, _, id) = self.pending.remove(i);
        self.cur = t;
        self.out.push((id, t));
        if (id as usize) < prog.len() {
            for &(c, d) in &prog[id as usize] {
                self.add(c, t + d as u128);
            }
        }
    }
}

#[derive(Clone, Copy, Debug)]
enum Step {
    N(usize),
    Until(u64),
    Inject(i64), // offset class: 0 = at sim_time, 1 = +1ns, 2 = midway to next pending, 3 = at next pending
}

fn main() {
    let maxm: usize = std::env::args().nth(1).map(|s| s.parse().unwrap()).unwrap_or(3);
    let cfgs: [(usize, u64); 2] = [(2, 3), (3, 2)];
    let (mut runs, mut bad, mut panics) = (0u64, 0u64, 0u64);
    let mut shown = 0;
    for &(n, t) in &cfgs {
        let y = n as u64 * t;
        let mut deltas = vec![0, 1, t, y, y + 1];
        deltas.sort();
        deltas.dedup();
        let nd = deltas.len();
        for m in 1..=maxm {
            let mut idx = vec![0usize; m];
            loop {
                let mut prog: Vec<Vec<(u32, u64)>> = vec![vec![]; m];
                let mut roots = vec![];
                for i in 0..m {
                    let c = idx[i];
                    let par = c / nd;
                    let d = deltas[c % nd];
                    if par == 0 {
                        roots.push((i as u32, d));
                    } else {
                        prog[par - 1].push((i as u32, d));
                    }
                }
                let progr = Arc::new(prog.clone());
                // candidate until-times
                let mut full = Ref { pending: vec![], seq: 0, cur: 0, out: vec![] };
                for &(id, tt) in &roots {
                    full.add(id, tt as u128);
                }
                while !full.pending.is_empty() {
                    full.step(&prog);
                }
                let mut ts: Vec<u64> = full.out.iter().map(|e| e.1 as u64).collect();
                ts.sort();
                ts.dedup();
                let mut steps: Vec<Step> = vec![Step::N(0), Step::N(1), Step::N(2)];
                for &x in &ts {
                    steps.push(Step::Until(x));
                    steps.push(Step::Until(x + 1));
                }
                for k in 0..4 {
                    steps.push(Step::Inject(k));
                }
                // all schedules of length 1..=2
                let mut scheds: Vec<Vec<Step>> = vec![];
                for a in &steps {
                    scheds.push(vec![*a]);
                    for b in &steps {
                        scheds.push(vec![*a, *b]);
                    }
                }
                for sched in &scheds {
                    let log: Log = Default::default();
                    let mut rt = Builder::seeded(1).quiet().cqueue_options(n, Duration::from_nanos(t)).build(App { log: log.clone(), prog: progr.clone() });
                    let mut rf = Ref { pending: vec![], seq: 0, cur: 0, out: vec![] };
                    for &(id, tt) in &roots {
                        rt.add_event(Ev(id), SimTime::from_duration(Duration::from_nanos(tt)));
                        rf.add(id, tt as u128);
                    }
                    rt.start();
                    let mut ok = true;
                    let mut inj = 100u32;
                    for st in sched {
                        match *st {
                            Step::N(k) => {
                                rt.dispatch_n_events(k);
                                for _ in 0..k {
                                    if !rf.pending.is_empty() {
                                        rf.step(&prog);
                                    }
                                }
                            }
                            Step::Until(x) => {
                                rt.dispatch_events_until(SimTime::from_duration(Duration::from_nanos(x)));
                                while rf.next_time().map_or(false, |nt| nt <= x as u128) {
                                    rf.step(&prog);
                                }
                            }
                            Step::Inject(k) => {
                                let now = rt.sim_time().as_nanos();
                                let at = match k {
                                    0 => now,
                                    1 => now + 1,
                                    2 => rf.next_time().map_or(now + 2, |nt| (now + nt) / 2),
                                    _ => rf.next_time().unwrap_or(now + 3),
                                };
                                let at = at.max(now);
                                inj += 1;
                                let r = catch_unwind(AssertUnwindSafe(|| rt.add_event(Ev(inj), SimTime::from_duration(Duration::from_nanos(at as u64)))));
                                if r.is_err() {
                                    ok = false;
                                    panics += 1;
                                    break;
                                }
                                rf.add(inj, at);
                            }
                        }
                        // paused observations
                        let got = log.lock().unwrap().clone();
                        let exp_now = rf.out.last().map_or(0, |e| e.1);
                        if got != rf.out || rt.sim_time().as_nanos() != exp_now || rt.num_events_remaining() != rf.pending.len() || rt.num_events_dispatched() != rf.out.len() {
                            ok = false;
                            break;
                        }
                    }
                    if ok {
                        rt.dispatch_all();
                        while !rf.pending.is_empty() {
                            rf.step(&prog);
                        }
                        let r = rt.finish().unwrap();
                        let got = log.lock().unwrap().clone();
                        if got != rf.out || r.1.as_nanos() != rf.out.last().map_or(0, |e| e.1) {
                            ok = false;
                        }
                    } else {
                        drop(rt);
                    }
                    runs += 1;
                    if !ok {
                        bad += 1;
                        if shown < 5 {
                            shown += 1;
                            println!("C10 MISMATCH cfg=({n},{t}) roots={roots:?} prog={prog:?} sched={sched:?}\n  got={:?}\n  exp={:?}", log.lock().unwrap(), rf.out);
                        }
                    }
                }
                let mut i = 0;
                loop {
                    if i == m {
                        break;
                    }
                    idx[i] += 1;
                    if idx[i] < (i + 1) * nd {
                        break;
                    }
                    idx[i] = 0;
                    i += 1;
                }
                if i == m {
                    break;
                }
            }
        }
    }
    println!("C10 runs={runs} bad={bad} inject-panics={panics}");
}
