// Throw-away design prototype for C07 (channels). Not framework code.
use des::prelude::*;
use std::collections::VecDeque;
use std::sync::atomic::{AtomicIsize, Ordering::SeqCst};
use std::sync::{Arc, Mutex};

static LIVE: AtomicIsize = AtomicIsize::new(0);
#[derive(Debug)]
struct Tok(usize);
impl Tok {
    fn new(len: usize) -> Self {
        LIVE.fetch_add(1, SeqCst);
        Tok(len)
    }
}
impl Clone for Tok {
    fn clone(&self) -> Self {
        Tok::new(self.0)
    }
}
impl Drop for Tok {
    fn drop(&mut self) {
        LIVE.fetch_sub(1, SeqCst);
    }
}
impl MessageBody for Tok {
    fn byte_len(&self) -> usize {
        self.0
    }
}

type Log = Arc<Mutex<Vec<(u16, u128)>>>;

struct Tx {
    // tick k -> list of (id, body len)
    ticks: Vec<(u64, Vec<(u16, usize)>)>,
}
impl Module for Tx {
    fn at_sim_start(&mut self, _: usize) {
        for (k, (t, _)) in self.ticks.iter().enumerate() {
            schedule_at(
                Message::default().kind(k as u16),
                SimTime::from_duration(Duration::from_nanos(*t)),
            );
        }
    }
    fn handle_message(&mut self, m: Message) {
        let k = m.header().kind as usize;
        for &(id, len) in &self.ticks[k].1 {
            send(Message::default().id(id).with_content(Tok::new(len)), "out");
        }
    }
}
struct Rx {
    log: Log,
}
impl Module for Rx {
    fn handle_message(&mut self, m: Message) {
        self.log.lock().unwrap().push((m.header().id, SimTime::now().as_nanos()));
    }
}

#[derive(Clone, Copy, Debug, PartialEq)]
enum Pol {
    Drop,
    Q(Option<usize>),
}

fn tx_ns(len: usize, bitrate: u64) -> u128 {
    if bitrate == 0 {
        return 0;
    }
    // round to nearest ns
    let num = (len as u128) * 8 * 1_000_000_000;
    (num + bitrate as u128 / 2) / bitrate as u128
}

// reference: returns set of allowed outcomes; outcome = per id Option<base delivery time>, plus delivery order
fn reference(bitrate: u64, lat: u128, pol: Pol, offers: &[(u128, u16, usize)]) -> Vec<Vec<Option<u128>>> {
    #[derive(Clone)]
    struct St {
        i: usize,
        busy_until: Option<u128>,
        queue: VecDeque<(u16, usize)>,
        acc: usize,
        out: Vec<Option<u128>>,
    }
    let n = offers.len();
    let mut results = vec![];
    let mut stack = vec![St { i: 0, busy_until: None, queue: VecDeque::new(), acc: 0, out: vec![None; n] }];
    fn start(st: &mut St, now: u128, id: u16, len: usize, bitrate: u64, lat: u128) {
        let tx = tx_ns(len + 64, bitrate);
        st.out[id as usize] = Some(now + tx + lat);
        if tx > 0 {
            st.busy_until = Some(now + tx);
        }
    }
    fn unbusy(st: &mut St, now: u128, bitrate: u64, lat: u128) {
        st.busy_until = None;
        while st.busy_until.is_none() {
            let Some((id, len)) = st.queue.pop_front() else { break };
            st.acc -= len + 64;
            start(st, now, id, len, bitrate, lat);
        }
    }
    fn offer(st: &mut St, now: u128, id: u16, len: usize, bitrate: u64, lat: u128, pol: Pol) {
        if st.busy_until.is_none() {
            start(st, now, id, len, bitrate, lat);
        } else {
            match pol {
                Pol::Drop => {}
                Pol::Q(limit) => {
                    if st.acc + len + 64 <= limit.unwrap_or(usize::MAX) {
                        st.queue.push_back((id, len));
                        st.acc += len + 64;
                    }
                }
            }
        }
    }
    while let Some(mut st) = stack.pop() {
        loop {
            let next_offer = offers.get(st.i).map(|o| o.0);
            match (next_offer, st.busy_until) {
                (None, None) => {
                    results.push(st.out.clone());
                    break;
                }
                (None, Some(u)) => unbusy(&mut st, u, bitrate, lat),
                (Some(t), None) => {
                    let (_, id, len) = offers[st.i];
                    st.i += 1;
                    offer(&mut st, t, id, len, bitrate, lat, pol);
                }
                (Some(t), Some(u)) => {
                    if t < u {
                        let (_, id, len) = offers[st.i];
                        st.i += 1;
                        offer(&mut st, t, id, len, bitrate, lat, pol);
                    } else if u < t {
                        unbusy(&mut st, u, bitrate, lat);
                    } else {
                        // tie: branch
                        let mut alt = st.clone();
                        unbusy(&mut alt, u, bitrate, lat);
                        stack.push(alt);
                        let (_, id, len) = offers[st.i];
                        st.i += 1;
                        offer(&mut st, t, id, len, bitrate, lat, pol);
                    }
                }
            }
        }
    }
    results.sort();
    results.dedup();
    results
}

fn main() {
    let maxm: usize = std::env::args().nth(1).map(|s| s.parse().unwrap()).unwrap_or(3);
    let bitrates = [0u64, 8_000, 1_000_000, 2_000_000_000_000];
    let lats = [0u128, 1_000_000];
    let jits = [0u64, 1_000_000];
    let sizes = [0usize, 100, 1000];
    let (mut runs, mut bad, mut ties, mut leaks) = (0u64, 0u64, 0u64, 0u64);
    let mut bad_by_cfg: std::collections::BTreeMap<String, u64> = Default::default();
    for &br in &bitrates {
        let tx0 = tx_ns(64 + 100, br).max(2) as u64;
        let gaps = [0u64, tx0 / 2, tx0, tx0 + 1, 3 * tx0];
        let pols = [Pol::Drop, Pol::Q(None), Pol::Q(Some(0)), Pol::Q(Some(164)), Pol::Q(Some(165 + 164)), Pol::Q(Some(163))];
        for &lat in &lats {
            for &jit in &jits {
                for &pol in &pols {
                    for m in 1..=maxm {
                        // enumerate sizes^m x gaps^(m-1)
                        let total = sizes.len().pow(m as u32) * gaps.len().pow(m as u32 - 1);
                        for code in 0..total {
                            let mut c = code;
                            let mut offers: Vec<(u128, u16, usize)> = vec![];
                            let mut t = 1000u128; // first offer at 1us
                            for i in 0..m {
                                let s = sizes[c % sizes.len()];
                                c /= sizes.len();
                                if i > 0 {
                                    let g = gaps[c % gaps.len()];
                                    c /= gaps.len();
                                    t += g as u128;
                                }
                                offers.push((t, i as u16, s));
                            }
                            // build ticks
                            let mut ticks: Vec<(u64, Vec<(u16, usize)>)> = vec![];
                            for &(t, id, len) in &offers {
                                if let Some(last) = ticks.last_mut() {
                                    if last.0 as u128 == t {
                                        last.1.push((id, len));
                                        continue;
                                    }
                                }
                                ticks.push((t as u64, vec![(id, len)]));
                            }
                            LIVE.store(0, SeqCst);
                            let log: Log = Default::default();
                            let mut sim = Sim::new(());
                            sim.node("tx", Tx { ticks });
                            sim.node("rx", Rx { log: log.clone() });
                            let a = sim.gate("tx", "out");
                            let b = sim.gate("rx", "in");
                            let metrics = ChannelMetrics::new(
                                br as usize,
                                Duration::from_nanos(lat as u64),
                                Duration::from_nanos(jit),
                                match pol {
                                    Pol::Drop => ChannelDropBehaviour::Drop,
                                    Pol::Q(l) => ChannelDropBehaviour::Queue(l),
                                },
                            );
                            a.connect(b, Some(Channel::new(metrics)));
                            let r = Builder::seeded(1).quiet().cqueue_options(16, Duration::from_micros(50)).build(sim.freeze()).run();
                            let ok_run = r.is_ok();
                            let live_after_run = LIVE.load(SeqCst);
                            drop(r);
                            let live_after_drop = LIVE.load(SeqCst);
                            runs += 1;
                            let got = log.lock().unwrap().clone();
                            let allowed = reference(br, lat, pol, &offers);
                            if allowed.len() > 1 {
                                ties += 1;
                            }
                            // compare
                            let mut got_times: Vec<Option<u128>> = vec![None; m];
                            let mut dup = false;
                            for &(id, t) in &got {
                                if got_times[id as usize].is_some() {
                                    dup = true;
                                }
                                got_times[id as usize] = Some(t);
                            }
                            let matches = |exp: &Vec<Option<u128>>| -> bool {
                                (0..m).all(|i| match (exp[i], got_times[i]) {
                                    (None, None) => true,
                                    (Some(e), Some(g)) => g >= e && g < e + jit.max(1) as u128,
                                    _ => false,
                                })
                            };
                            let ok_times = allowed.iter().any(matches);
                            // order (jitter 0)
                            let ids: Vec<u16> = got.iter().map(|g| g.0).collect();
                            let ok_order = jit != 0 || ids.windows(2).all(|w| w[0] < w[1]);
                            let ok = ok_run && !dup && ok_times && ok_order && live_after_run == 0;
                            if live_after_drop != 0 {
                                leaks += 1;
                            }
                            if !ok {
                                bad += 1;
                                *bad_by_cfg.entry(format!("br={br} lat={lat} jit={jit} pol={pol:?}")).or_default() += 1;
                                if bad <= 6 {
                                    println!("C07 MISMATCH br={br} lat={lat} jit={jit} pol={pol:?} offers={offers:?}\n  got={got:?} dup={dup} times_ok={ok_times} order_ok={ok_order} live_after_run={live_after_run}\n  allowed={allowed:?}");
                                }
                            }
                        }
                    }
                }
            }
        }
    }
    println!("C07 runs={runs} bad={bad} with-ties={ties} leak-after-drop={leaks}");
    for (k, v) in bad_by_cfg {
        println!("  bad {v:6}  {k}");
    }
}
