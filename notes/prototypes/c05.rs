// Throw-away design prototype for C05 (timers). Not framework code.
use des::prelude::*;
use des::time::{interval, sleep, sleep_until, timeout, MissedTickBehavior};
use std::future::Future;
use std::pin::Pin;
use std::sync::{Arc, Mutex};

#[derive(Clone, Copy, Debug, PartialEq)]
enum Beh {
    Burst,
    Delay,
    Skip,
}
#[derive(Clone, Copy, Debug)]
enum Step {
    Sleep(u64),
    Until(u64),
    Timeout(u64, u64),
    Sel(u64, u64),
    DropPolled(u64),
    ResetFresh(u64, u64),
    ResetPolled(u64, u64),
    Interval(u64, Beh, u64), // period, behaviour, gap between the 3 ticks (all in seconds)
}
type Log = Arc<Mutex<Vec<(usize, usize, u64, u64)>>>; // task, step, now, value

async fn poll_once<F: Future + Unpin>(mut f: F) -> bool {
    std::future::poll_fn(|cx| std::task::Poll::Ready(Pin::new(&mut f).poll(cx).is_ready())).await
}
fn st(s: u64) -> SimTime {
    SimTime::from_duration(Duration::from_secs(s))
}

async fn run_steps(task: usize, steps: Vec<Step>, log: Log) {
    for (i, s) in steps.iter().enumerate() {
        let mut push = |v: u64| log.lock().unwrap().push((task, i, SimTime::now().as_secs(), v));
        match *s {
            Step::Sleep(d) => {
                sleep(Duration::from_secs(d)).await;
                push(0)
            }
            Step::Until(t) => {
                sleep_until(st(t)).await;
                push(0)
            }
            Step::Timeout(d, inner) => {
                let r = timeout(Duration::from_secs(d), sleep(Duration::from_secs(inner))).await;
                push(if r.is_ok() { 1 } else { 2 })
            }
            Step::Sel(a, b) => {
                let v = tokio::select! { biased; _ = sleep(Duration::from_secs(a)) => 1, _ = sleep(Duration::from_secs(b)) => 2 };
                push(v)
            }
            Step::DropPolled(d) => {
                let s = sleep(Duration::from_secs(d));
                tokio::pin!(s);
                let _ = poll_once(s.as_mut()).await;
                push(0)
            }
            Step::ResetFresh(d0, d1) => {
                let s = sleep(Duration::from_secs(d0));
                tokio::pin!(s);
                s.as_mut().reset(SimTime::now() + Duration::from_secs(d1));
                s.await;
                push(0)
            }
            Step::ResetPolled(d0, d1) => {
                let s = sleep(Duration::from_secs(d0));
                tokio::pin!(s);
                let done = poll_once(s.as_mut()).await;
                let _ = done;
                s.as_mut().reset(SimTime::now() + Duration::from_secs(d1));
                s.await;
                push(0)
            }
            Step::Interval(p, beh, gap) => {
                let mut iv = interval(Duration::from_secs(p));
                iv.set_missed_tick_behavior(match beh {
                    Beh::Burst => MissedTickBehavior::Burst,
                    Beh::Delay => MissedTickBehavior::Delay,
                    Beh::Skip => MissedTickBehavior::Skip,
                });
                for _ in 0..3 {
                    let t = iv.tick().await;
                    log.lock().unwrap().push((task, i, SimTime::now().as_secs(), 100 + t.as_secs()));
                    if gap > 0 {
                        sleep(Duration::from_secs(gap)).await;
                    }
                }
            }
        }
    }
}

fn reference(task: usize, steps: &[Step]) -> Vec<(usize, usize, u64, u64)> {
    let mut now = 0u64;
    let mut out = vec![];
    for (i, s) in steps.iter().enumerate() {
        match *s {
            Step::Sleep(d) => {
                now += d;
                out.push((task, i, now, 0));
            }
            Step::Until(t) => {
                now = now.max(t);
                out.push((task, i, now, 0));
            }
            Step::Timeout(d, inner) => {
                let v = if inner <= d {
                    now += inner;
                    1
                } else {
                    now += d;
                    2
                };
                out.push((task, i, now, v));
            }
            Step::Sel(a, b) => {
                let v = if a <= b {
                    now += a;
                    1
                } else {
                    now += b;
                    2
                };
                out.push((task, i, now, v));
            }
            Step::DropPolled(_) => out.push((task, i, now, 0)),
            Step::ResetFresh(_, d1) | Step::ResetPolled(_, d1) => {
                now += d1;
                out.push((task, i, now, 0));
            }
            Step::Interval(p, beh, gap) => {
                let mut deadline = now;
                for _ in 0..3 {
                    now = now.max(deadline);
                    out.push((task, i, now, 100 + deadline));
                    // next deadline (ms tolerance irrelevant at second granularity: late iff now > deadline)
                    deadline = if now > deadline {
                        match beh {
                            Beh::Burst => deadline + p,
                            Beh::Delay => now + p,
                            Beh::Skip => now + p - ((now - deadline) % p),
                        }
                    } else {
                        deadline + p
                    };
                    now += gap;
                }
            }
        }
    }
    out
}

fn main() {
    let mode = std::env::args().nth(1).unwrap_or("single".into());
    let ds = [0u64, 1, 2, 3];
    let mut alpha = vec![];
    for &d in &ds {
        alpha.push(Step::Sleep(d));
        alpha.push(Step::DropPolled(d));
        alpha.push(Step::Until(d + 2));
        for &e in &ds {
            alpha.push(Step::Timeout(d, e));
            alpha.push(Step::Sel(d, e));
            if d != e {
                alpha.push(Step::ResetFresh(d, e));
                alpha.push(Step::ResetPolled(d, e));
            }
        }
    }
    for p in [1u64, 2] {
        for beh in [Beh::Burst, Beh::Delay, Beh::Skip] {
            for gap in [0u64, 1, 3, 5] {
                alpha.push(Step::Interval(p, beh, gap));
            }
        }
    }
    println!("alphabet size {}", alpha.len());
    let (mut runs, mut bad) = (0u64, 0u64);
    let mut shown = 0;
    let mut run_prog = |tasks: Vec<Vec<Step>>, runs: &mut u64, bad: &mut u64, shown: &mut u32| {
        let log: Log = Default::default();
        let mut sim = Sim::new(());
        let tk = tasks.clone();
        let l = log.clone();
        struct Mo {
            tasks: Vec<Vec<Step>>,
            log: Log,
        }
        impl Module for Mo {
            fn at_sim_start(&mut self, _: usize) {
                for (i, t) in self.tasks.iter().enumerate() {
                    let h = tokio::spawn(run_steps(i, t.clone(), self.log.clone()));
                    current().join(h);
                }
            }
        }
        sim.node("m", Mo { tasks: tk, log: l });
        let r = Builder::seeded(1).quiet().build(sim.freeze()).run();
        *runs += 1;
        let mut exp = vec![];
        for (i, t) in tasks.iter().enumerate() {
            exp.extend(reference(i, t));
        }
        let mut got = log.lock().unwrap().clone();
        got.sort();
        exp.sort();
        if got != exp || r.is_err() {
            *bad += 1;
            if *shown < 6 {
                *shown += 1;
                println!("C05 MISMATCH {tasks:?}\n  got={got:?} ok={}\n  exp={exp:?}", r.is_ok());
            }
        }
    };
    match mode.as_str() {
        "single" => {
            // all programs of 1 and 2 steps
            for a in &alpha {
                run_prog(vec![vec![*a]], &mut runs, &mut bad, &mut shown);
                for b in &alpha {
                    run_prog(vec![vec![*a, *b]], &mut runs, &mut bad, &mut shown);
                }
            }
        }
        "pair" => {
            // two tasks: A has 1 step, B has 2 steps (all combos)
            for a in &alpha {
                for b in &alpha {
                    run_prog(vec![vec![*a], vec![*b]], &mut runs, &mut bad, &mut shown);
                }
            }
        }
        "pair3" => {
            for a in &alpha {
                for b in &alpha {
                    for c in &alpha {
                        run_prog(vec![vec![*a], vec![*b, *c]], &mut runs, &mut bad, &mut shown);
                    }
                }
            }
        }
        _ => {}
    }
    println!("C05 mode={mode} runs={runs} bad={bad}");
}
