// Throw-away design prototype for C17 (props). Not framework code.
use des::prelude::*;
use std::collections::BTreeMap;
use std::panic::{catch_unwind, AssertUnwindSafe};

#[derive(Default)]
struct M;
impl Module for M {}

fn matches(key: &[&str], path: &[&str]) -> Option<String> {
    // key = segs..., must have more segments than path; first |path| segs match (<any> = one segment); rest = prop name
    if key.len() <= path.len() {
        return None;
    }
    for i in 0..path.len() {
        if key[i] != "<any>" && key[i] != path[i] {
            return None;
        }
    }
    let rest = key[path.len()..].join(".");
    if rest.contains("<any>") {
        return None;
    }
    Some(rest)
}

fn main() {
    let maxe: usize = std::env::args().nth(1).map(|s| s.parse().unwrap()).unwrap_or(2);
    let segs = ["a", "ab", "b", "aß", "<any>"];
    let props = ["x", "y.z"];
    // candidate keys: path depth 1..=3 + prop
    let mut keys: Vec<Vec<&str>> = vec![];
    for d in 1..=3usize {
        let total = segs.len().pow(d as u32);
        for code in 0..total {
            let mut c = code;
            let mut k = vec![];
            for _ in 0..d {
                k.push(segs[c % segs.len()]);
                c /= segs.len();
            }
            for p in props {
                let mut kk = k.clone();
                kk.extend(p.split('.'));
                keys.push(kk);
            }
        }
    }
    let module_paths = ["a", "ab", "b", "aß", "a.b", "a.ab", "ab.b", "a.b.a", "a.aß"];
    println!("candidate keys: {}", keys.len());
    let (mut runs, mut bad, mut panics) = (0u64, 0u64, 0u64);
    let mut shown = 0;
    // all sets of <= maxe distinct keys (ordered by index)
    let nk = keys.len();
    let mut combos: Vec<Vec<usize>> = vec![];
    for i in 0..nk {
        combos.push(vec![i]);
        if maxe >= 2 {
            for j in (i + 1)..nk {
                combos.push(vec![i, j]);
            }
        }
    }
    for combo in &combos {
        let mut yaml = String::new();
        for (vi, &ki) in combo.iter().enumerate() {
            yaml.push_str(&format!("\"{}\": {}\n", keys[ki].join("."), vi + 1));
        }
        for before in [true, false] {
            let res = catch_unwind(AssertUnwindSafe(|| {
                let mut sim = Sim::new(());
                if before {
                    sim.include_cfg(&yaml);
                }
                for p in module_paths {
                    sim.node(p, M);
                }
                if !before {
                    sim.include_cfg(&yaml);
                }
                let mut out: BTreeMap<String, BTreeMap<String, i64>> = BTreeMap::new();
                for p in module_paths {
                    let m = sim.get(&p.into()).unwrap();
                    let mut ks = m.props_keys();
                    ks.sort();
                    let mut mm = BTreeMap::new();
                    for k in ks {
                        let v = m.prop_raw(&k).as_value().and_then(|v| v.as_i64()).unwrap_or(-1);
                        mm.insert(k, v);
                    }
                    out.insert(p.to_string(), mm);
                }
                out
            }));
            runs += 1;
            match res {
                Err(_) => {
                    panics += 1;
                    bad += 1;
                    if shown < 4 { shown += 1; println!("PANIC cfg={yaml:?} before={before}"); }
                }
                Ok(out) => {
                    let mut ok = true;
                    for p in module_paths {
                        let path: Vec<&str> = p.split('.').collect();
                        let mut exp: BTreeMap<String, Vec<i64>> = BTreeMap::new();
                        for (vi, &ki) in combo.iter().enumerate() {
                            if let Some(name) = matches(&keys[ki], &path) {
                                exp.entry(name).or_default().push(vi as i64 + 1);
                            }
                        }
                        let got = &out[p];
                        let gk: Vec<&String> = got.keys().collect();
                        let ek: Vec<&String> = exp.keys().collect();
                        if gk != ek || got.iter().any(|(k, v)| !exp[k].contains(v)) {
                            ok = false;
                            if shown < 10 { shown += 1; println!("MISMATCH cfg={yaml:?} before={before} module={p} got={got:?} exp={exp:?}"); }
                        }
                    }
                    if !ok {
                        bad += 1;
                    }
                }
            }
        }
    }
    println!("C17 runs={runs} bad={bad} panics={panics}");
}
