// Throw-away design prototype for C06 (all runnable work finishes within the instant). Not framework code.
use des::prelude::*;
use des::time::sleep;
use std::sync::{Arc, Mutex};
use tokio::sync::{mpsc, oneshot, Notify};

type Log = Arc<Mutex<Vec<(String, u64)>>>; // (what, now ms)
fn now() -> u64 {
    SimTime::now().as_millis() as u64
}

#[derive(Clone, Copy, Debug, PartialEq)]
enum Pat {
    Sleepers,
    Chain,
    Notify,
    Drain,
    SpawnBurst,
    SpawnLocalBurst,
    LocalSleepers,
}

struct Mo {
    pat: Pat,
    n: usize,
    log: Log,
    tx: Option<mpsc::UnboundedSender<u32>>,
    trigger: Option<oneshot::Sender<()>>,
    notify: Arc<Notify>,
}
impl Module for Mo {
    fn at_sim_start(&mut self, _: usize) {
        let n = self.n;
        let log = self.log.clone();
        match self.pat {
            Pat::Sleepers => {
                for i in 0..n {
                    let l = log.clone();
                    tokio::spawn(async move {
                        sleep(Duration::from_secs(1)).await;
                        l.lock().unwrap().push((format!("t{i}"), now()));
                    });
                }
            }
            Pat::LocalSleepers => {
                for i in 0..n {
                    let l = log.clone();
                    tokio::task::spawn_local(async move {
                        sleep(Duration::from_secs(1)).await;
                        l.lock().unwrap().push((format!("t{i}"), now()));
                    });
                }
            }
            Pat::Chain => {
                // task0 waits for trigger (message at 1s), task i waits on oneshot from i-1
                let (tx0, mut prev) = oneshot::channel::<()>();
                self.trigger = Some(tx0);
                for i in 0..n {
                    let (tx, rx) = oneshot::channel::<()>();
                    let l = log.clone();
                    let p = std::mem::replace(&mut prev, rx);
                    tokio::spawn(async move {
                        let _ = p.await;
                        l.lock().unwrap().push((format!("t{i}"), now()));
                        let _ = tx.send(());
                    });
                }
                let l = log.clone();
                tokio::spawn(async move {
                    let _ = prev.await;
                    l.lock().unwrap().push(("last".into(), now()));
                });
                schedule_in(Message::default().kind(1), Duration::from_secs(1));
            }
            Pat::Notify => {
                for i in 0..n {
                    let l = log.clone();
                    let nf = self.notify.clone();
                    tokio::spawn(async move {
                        nf.notified().await;
                        l.lock().unwrap().push((format!("t{i}"), now()));
                    });
                }
                schedule_in(Message::default().kind(2), Duration::from_secs(1));
            }
            Pat::Drain => {
                let (tx, mut rx) = mpsc::unbounded_channel::<u32>();
                self.tx = Some(tx);
                let l = log.clone();
                tokio::spawn(async move {
                    while let Some(v) = rx.recv().await {
                        l.lock().unwrap().push((format!("t{v}"), now()));
                    }
                });
                schedule_in(Message::default().kind(3), Duration::from_secs(1));
            }
            Pat::SpawnBurst | Pat::SpawnLocalBurst => {
                schedule_in(Message::default().kind(4), Duration::from_secs(1));
            }
        }
    }
    fn handle_message(&mut self, m: Message) {
        let log = self.log.clone();
        match m.header().kind {
            1 => {
                let _ = self.trigger.take().unwrap().send(());
            }
            2 => self.notify.notify_waiters(),
            3 => {
                for i in 0..self.n {
                    let _ = self.tx.as_ref().unwrap().send(i as u32);
                }
            }
            4 => {
                for i in 0..self.n {
                    let l = log.clone();
                    let fut = async move {
                        l.lock().unwrap().push((format!("t{i}"), now()));
                    };
                    if self.pat == Pat::SpawnLocalBurst {
                        tokio::task::spawn_local(fut);
                    } else {
                        tokio::spawn(fut);
                    }
                }
            }
            _ => {}
        }
    }
}

fn main() {
    let ns = [1usize, 2, 30, 59, 60, 61, 62, 100, 128, 129, 500, 2000];
    for pat in [Pat::Sleepers, Pat::LocalSleepers, Pat::Chain, Pat::Notify, Pat::Drain, Pat::SpawnBurst, Pat::SpawnLocalBurst] {
        let mut line = format!("{pat:?}: ");
        for &n in &ns {
            let log: Log = Default::default();
            let mut sim = Sim::new(());
            sim.node("m", Mo { pat, n, log: log.clone(), tx: None, trigger: None, notify: Arc::new(Notify::new()) });
            // a later event so that leftover work can run late (and be observed as late)
            struct Late;
            impl Module for Late {
                fn at_sim_start(&mut self, _: usize) {
                    schedule_in(Message::default(), Duration::from_secs(9));
                }
            }
            sim.node("late", Late);
            let g = sim.gate("m", "in");
            let mut rt = Builder::seeded(1).quiet().build(sim.freeze());
            for k in 2..9 {
                rt.add_message_onto(g.clone(), Message::default().kind(99), SimTime::from_duration(Duration::from_secs(k)));
            }
            let _ = rt.run();
            let lg = log.lock().unwrap();
            let done = lg.len();
            let late = lg.iter().filter(|e| e.1 != 1000).count();
            let expect = if pat == Pat::Chain { n + 1 } else { n };
            line.push_str(&format!("n={n}:{}{} ", if done == expect && late == 0 { "ok" } else { "BAD" }, if done == expect && late == 0 { String::new() } else { format!("(done {done}/{expect} late {late})") }));
        }
        println!("{line}");
    }
}
