// Throw-away design prototype for C20 (drop accounting). Not framework code.
use des::net::processing::*;
use des::prelude::*;
use des::time::sleep;
use std::sync::atomic::{AtomicIsize, Ordering::SeqCst};

static LIVE: [AtomicIsize; 4] = [AtomicIsize::new(0), AtomicIsize::new(0), AtomicIsize::new(0), AtomicIsize::new(0)];
static DOUBLE: AtomicIsize = AtomicIsize::new(0);
const MODS: usize = 0;
const TASK: usize = 1;
const BODY: usize = 2;
const PE: usize = 3;

#[derive(Debug)]
struct Tok(usize, bool);
impl Tok {
    fn new(k: usize) -> Self {
        LIVE[k].fetch_add(1, SeqCst);
        Tok(k, false)
    }
}
impl Clone for Tok {
    fn clone(&self) -> Self {
        Tok::new(self.0)
    }
}
impl Drop for Tok {
    fn drop(&mut self) {
        if self.1 {
            DOUBLE.fetch_add(1, SeqCst);
        }
        self.1 = true;
        LIVE[self.0].fetch_sub(1, SeqCst);
    }
}
impl MessageBody for Tok {
    fn byte_len(&self) -> usize {
        100
    }
}

struct Pel(Tok);
impl ProcessingElement for Pel {}

struct Tx {
    _t: Tok,
    burst: u32,
    tasks: bool,
}
impl Module for Tx {
    fn at_sim_start(&mut self, _: usize) {
        for i in 0..self.burst {
            send(Message::default().id(i as u16).with_content(Tok::new(BODY)), "out");
        }
        schedule_in(Message::default().kind(5).with_content(Tok::new(BODY)), Duration::from_secs(3));
        if self.tasks {
            let t = Tok::new(TASK);
            tokio::spawn(async move {
                sleep(Duration::from_secs(1000)).await;
                drop(t);
            });
            let t = Tok::new(TASK);
            tokio::spawn(async move {
                sleep(Duration::MAX).await;
                drop(t);
            });
        }
    }
    fn handle_message(&mut self, m: Message) {
        if m.header().kind == 5 {
            send(m, "out");
        }
    }
    fn stack(&self, mut s: ProcessingStack) -> ProcessingStack {
        s.append(Pel(Tok::new(PE)));
        s
    }
}
struct Rx {
    _t: Tok,
    tasks: bool,
    tx: Option<tokio::sync::mpsc::Sender<Message>>,
}
impl Module for Rx {
    fn at_sim_start(&mut self, _: usize) {
        if self.tasks {
            let (tx, mut rx) = tokio::sync::mpsc::channel::<Message>(16);
            self.tx = Some(tx);
            let t = Tok::new(TASK);
            tokio::spawn(async move {
                let _t = t;
                let mut held = vec![];
                while let Some(m) = rx.recv().await {
                    held.push(m);
                }
            });
        }
    }
    fn handle_message(&mut self, m: Message) {
        if m.header().id == 1 {
            send(Message::default().kind(7).with_content(Tok::new(BODY)), "back");
        }
        if let Some(tx) = &self.tx {
            let _ = tx.try_send(m);
        }
    }
}
struct Mid {
    _t: Tok,
    shutdown: bool,
}
impl Module for Mid {
    fn at_sim_start(&mut self, _: usize) {
        if self.shutdown && SimTime::now() == SimTime::ZERO {
            schedule_in(Message::default().kind(9), Duration::from_secs_f64(1.5));
        }
        let t = Tok::new(TASK);
        tokio::spawn(async move {
            let _t = t;
            sleep(Duration::from_secs(50)).await;
        });
    }
    fn handle_message(&mut self, m: Message) {
        if m.header().kind == 9 {
            current().shutdow_and_restart_in(Duration::from_secs(2));
        }
    }
}

fn build(policy: ChannelDropBehaviour, tasks: bool, shutdown: bool) -> Sim<()> {
    let mut sim = Sim::new(());
    let mut s = sim;
    s.set_stack(|| Pel(Tok::new(PE)));
    s.node("tx", Tx { _t: Tok::new(MODS), burst: 3, tasks });
    s.node("mid", Mid { _t: Tok::new(MODS), shutdown });
    s.node("rx", Rx { _t: Tok::new(MODS), tasks, tx: None });
    s.node("rx.child", Mid { _t: Tok::new(MODS), shutdown: false });
    let a = s.gate("tx", "out");
    let t = s.gate("mid", "transit");
    let b = s.gate("rx", "in");
    let ch = || Some(Channel::new(ChannelMetrics::new(8000, Duration::from_millis(500), Duration::ZERO, policy)));
    a.connect(t.clone(), ch());
    t.connect(b, ch());
    let back = s.gate("rx", "back");
    let txin = s.gate("tx", "in");
    back.connect(txin, ch());
    sim = s;
    sim.freeze()
}

fn live() -> [isize; 4] {
    [LIVE[0].load(SeqCst), LIVE[1].load(SeqCst), LIVE[2].load(SeqCst), LIVE[3].load(SeqCst)]
}

fn main() {
    let (mut runs, mut bad) = (0u64, 0u64);
    let mut first_bad: Vec<String> = vec![];
    let mut check = |tag: String, runs: &mut u64, bad: &mut u64| {
        *runs += 1;
        let l = live();
        if l != [0, 0, 0, 0] || DOUBLE.load(SeqCst) != 0 {
            *bad += 1;
            if first_bad.len() < 8 {
                first_bad.push(format!("{tag}: live[mods,tasks,bodies,pes]={l:?} double={}", DOUBLE.load(SeqCst)));
            }
            for a in &LIVE {
                a.store(0, SeqCst);
            }
            DOUBLE.store(0, SeqCst);
        }
    };
    for policy in [ChannelDropBehaviour::Drop, ChannelDropBehaviour::Queue(None), ChannelDropBehaviour::Queue(Some(200))] {
        for tasks in [false, true] {
            for shutdown in [false, true] {
                let cfg = format!("{policy:?} tasks={tasks} shutdown={shutdown}");
                {
                    let sim = build(policy, tasks, shutdown);
                    drop(sim);
                }
                check(format!("{cfg} never-built"), &mut runs, &mut bad);
                {
                    let rt = Builder::seeded(1).quiet().build(build(policy, tasks, shutdown));
                    drop(rt);
                }
                check(format!("{cfg} built-not-started"), &mut runs, &mut bad);
                {
                    let mut rt = Builder::seeded(1).quiet().build(build(policy, tasks, shutdown));
                    rt.start();
                    rt.dispatch_n_events(2);
                    drop(rt);
                }
                check(format!("{cfg} started-not-finished"), &mut runs, &mut bad);
                // total events
                let total = {
                    let r = Builder::seeded(1).quiet().max_time(60.0.into()).build(build(policy, tasks, shutdown)).run().unwrap();
                    let n = r.2.event_count;
                    drop(r);
                    n
                };
                check(format!("{cfg} maxtime60"), &mut runs, &mut bad);
                for k in 0..=total + 1 {
                    for order in 0..2 {
                        let r = Builder::seeded(1).quiet().max_itr(k).build(build(policy, tasks, shutdown)).run();
                        match r {
                            Ok((app, _t, prof)) => {
                                if order == 0 {
                                    drop(app);
                                    drop(prof);
                                } else {
                                    drop(prof);
                                    drop(app);
                                }
                            }
                            Err(e) => drop(e),
                        }
                        check(format!("{cfg} max_itr={k} order={order}"), &mut runs, &mut bad);
                    }
                }
                for t in [0.0, 0.5, 1.0, 1.5, 2.0, 3.0, 3.5, 4.0, 10.0] {
                    let r = Builder::seeded(1).quiet().max_time(t.into()).build(build(policy, tasks, shutdown)).run();
                    drop(r);
                    check(format!("{cfg} max_time={t}"), &mut runs, &mut bad);
                }
            }
        }
    }
    println!("C20 runs={runs} bad={bad}");
    for l in first_bad {
        println!("  {l}");
    }
}
