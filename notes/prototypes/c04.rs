// Throw-away design prototype for C04 (reproducibility). Not framework code.
use des::net::ndl::*;
use des::prelude::*;
use des::time::sleep;
use std::sync::{Arc, Mutex};

type Log = Arc<Mutex<Vec<String>>>;
fn lg(l: &Log, s: String) {
    l.lock().unwrap().push(format!("{}|{}", SimTime::now().as_nanos(), s));
}

struct Node {
    log: Log,
    n: u32,
    tx: Option<tokio::sync::mpsc::Sender<u16>>,
}
impl Module for Node {
    fn at_sim_start(&mut self, _: usize) {
        let me = current().path().to_string();
        lg(&self.log, format!("{me} start r={}", des::runtime::random::<u32>()));
        let (tx, mut rx) = tokio::sync::mpsc::channel::<u16>(32);
        self.tx = Some(tx);
        let l = self.log.clone();
        let me2 = me.clone();
        tokio::spawn(async move {
            for round in 0..6 {
                // unbiased select over equal deadlines and a receive: branch choice comes from tokio's seeded rng
                let b = tokio::select! {
                    _ = sleep(Duration::from_millis(10)) => 0,
                    _ = sleep(Duration::from_millis(10)) => 1,
                    _ = sleep(Duration::from_millis(10)) => 2,
                    v = rx.recv() => 10 + v.unwrap_or(0) as i32,
                };
                let d: u64 = des::runtime::random::<u64>() % 7;
                lg(&l, format!("{me2} task round={round} branch={b} d={d}"));
                sleep(Duration::from_millis(d)).await;
            }
        });
        schedule_in(Message::default().kind(1), Duration::from_millis(des::runtime::random::<u64>() % 5));
    }
    fn handle_message(&mut self, m: Message) {
        let me = current().path().to_string();
        self.n += 1;
        lg(&self.log, format!("{me} msg kind={} id={} n={}", m.header().kind, m.header().id, self.n));
        if m.header().kind == 1 && self.n < 12 {
            for g in current().gates() {
                if g.kind() == des::net::gate::GateKind::Endpoint && des::runtime::random::<u8>() % 2 == 0 {
                    send(Message::default().kind(2).id(self.n as u16), g);
                }
            }
            schedule_in(Message::default().kind(1), Duration::from_millis(1 + des::runtime::random::<u64>() % 5));
        }
        if m.header().kind == 2 {
            if let Some(tx) = &self.tx {
                let _ = tx.try_send(m.header().id);
            }
        }
    }
}

fn run(seed: u64, ndl: bool) -> String {
    let log: Log = Default::default();
    let mut sim = Sim::new(());
    if ndl {
        let doc = "entry: Main\nmodules:\n  Main:\n    submodules:\n      a: Leaf\n      b: Leaf\n      c: Leaf\n      d[3]: Leaf\n    connections:\n    - peers:\n      - a/p[0]\n      - b/p[0]\n      link: L\n    - peers:\n      - b/p[1]\n      - c/p[0]\n      link: L\n    - peers:\n      - d/p[0]\n      - d/p[1]\n      link: L\n  Leaf:\n    gates:\n    - p[2]\nlinks:\n  L:\n    latency: 0.002\n    jitter: 0.001\n    bitrate: 1000000\n    queuesize: \"1000\"\n";
        let def: Def = serde_yml::from_str(doc).unwrap();
        let l = log.clone();
        let l2 = log.clone();
        let reg = Registry::new().symbol_fn("Leaf", move |_| Node { log: l.clone(), n: 0, tx: None }).symbol_fn("Main", move |_| Node { log: l2.clone(), n: 0, tx: None });
        sim.nodes_from_ndl(&def, reg).unwrap();
    } else {
        for n in ["a", "b", "c"] {
            sim.node(n, Node { log: log.clone(), n: 0, tx: None });
        }
        let ch = || Some(Channel::new(ChannelMetrics::new(1_000_000, Duration::from_millis(2), Duration::from_millis(1), ChannelDropBehaviour::Queue(None))));
        sim.gate("a", "ab").connect(sim.gate("b", "ba"), ch());
        sim.gate("b", "bc").connect(sim.gate("c", "cb"), ch());
        sim.gate("c", "ca").connect(sim.gate("a", "ac"), ch());
    }
    let r = Builder::seeded(seed).quiet().max_time(1.0.into()).build(sim.freeze()).run();
    let tail = match r {
        Ok((_, t, p)) => format!("ok end={} events={}", t.as_nanos(), p.event_count),
        Err(e) => format!("err {e}"),
    };
    let mut out = log.lock().unwrap().join("\n");
    out.push('\n');
    out.push_str(&tail);
    out
}

fn hash(s: &str) -> u64 {
    use std::hash::{Hash, Hasher};
    let mut h = std::collections::hash_map::DefaultHasher::new();
    s.hash(&mut h);
    h.finish()
}

fn main() {
    let args: Vec<String> = std::env::args().collect();
    if args.len() > 2 && args[1] == "one" {
        let seed: u64 = args[2].parse().unwrap();
        let ndl = args[3] == "ndl";
        // optional warm-up run with a different model to perturb global counters
        if args.len() > 4 {
            let _ = run(seed + 99, !ndl);
        }
        let t = run(seed, ndl);
        println!("{} {}", hash(&t), t.lines().count());
        return;
    }
    let exe = std::env::current_exe().unwrap();
    let mut bad = 0;
    let mut cases = 0;
    for ndl in [false, true] {
        let mut hashes = vec![];
        for seed in [0u64, 1, 123, 99999] {
            let t1 = run(seed, ndl);
            let t2 = run(seed, ndl);
            let h1 = hash(&t1);
            let same_proc = h1 == hash(&t2);
            let p = |extra: bool| {
                let mut c = std::process::Command::new(&exe);
                c.arg("one").arg(seed.to_string()).arg(if ndl { "ndl" } else { "plain" });
                if extra {
                    c.arg("warm");
                }
                String::from_utf8(c.output().unwrap().stdout).unwrap()
            };
            let o1 = p(false);
            let o2 = p(false);
            let o3 = p(true);
            let expect = format!("{} {}\n", h1, t1.lines().count());
            cases += 1;
            let ok = same_proc && o1 == expect && o2 == expect && o3 == expect;
            if !ok {
                bad += 1;
            }
            println!("ndl={ndl} seed={seed}: lines={} same-process={same_proc} fresh-proc={} fresh-proc2={} after-other-sim={}", t1.lines().count(), o1 == expect, o2 == expect, o3 == expect);
            hashes.push(h1);
        }
        hashes.sort();
        hashes.dedup();
        println!("  distinct traces over 4 seeds: {}", hashes.len());
    }
    println!("C04 cases={cases} bad={bad}");
}
