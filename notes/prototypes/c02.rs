// Throw-away design prototype for C02/C03/C11 (runtime-level programs). Not framework code.
// modes: order (C02+C03 incl. start time and past probes), limit (C11)
use des::prelude::*;
use des::runtime::RuntimeLimit;
use std::panic::{catch_unwind, AssertUnwindSafe};
use std::sync::{Arc, Mutex};

type Log = Arc<Mutex<Vec<(u32, u128)>>>;
struct App {
    log: Log,
    prog: Arc<Vec<Vec<(u32, u64)>>>,
    probe: Option<(u32, u64)>, // (at event id, how far into the past)
    probe_result: Arc<Mutex<Option<bool>>>,
}
impl Application for App {
    type EventSet = Ev;
    type Lifecycle = ();
}
#[derive(Debug)]
struct Ev(u32);
impl Event<App> for Ev {
    fn handle(self, rt: &mut Runtime<App>) {
        rt.app.log.lock().unwrap().push((self.0, SimTime::now().as_nanos()));
        if let Some((at, back)) = rt.app.probe {
            if at == self.0 && SimTime::now().as_nanos() >= back as u128 {
                let t = SimTime::from_duration(Duration::from_nanos((SimTime::now().as_nanos() - back as u128) as u64));
                let r = catch_unwind(AssertUnwindSafe(|| rt.add_event(Ev(999), t)));
                *rt.app.probe_result.lock().unwrap() = Some(r.is_err());
            }
        }
        let prog = rt.app.prog.clone();
        if (self.0 as usize) < prog.len() {
            for &(c, d) in &prog[self.0 as usize] {
                rt.add_event_in(Ev(c), Duration::from_nanos(d));
            }
        }
    }
}

fn reference(start: u64, roots: &[(u32, u64)], prog: &Vec<Vec<(u32, u64)>>) -> Vec<(u32, u128)> {
    let mut pending: Vec<(u128, u8, u64, u32)> = vec![];
    let mut seq = 0u64;
    let mut cur: u128 = 0; // "current instant" is zero before the first dispatch
    let mut out = vec![];
    for &(id, t) in roots {
        let t = (start + t) as u128;
        pending.push((t, if t == cur { 0 } else { 1 }, seq, id));
        seq += 1;
    }
    while !pending.is_empty() {
        let i = (0..pending.len()).min_by_key(|&i| (pending[i].0, pending[i].1, pending[i].2)).unwrap();
        let (t, _, _, id) = pending.remove(i);
        cur = t;
        out.push((id, t));
        for &(c, d) in &prog[id as usize] {
            let tt = t + d as u128;
            pending.push((tt, if tt == cur { 0 } else { 1 }, seq, c));
            seq += 1;
        }
    }
    out
}

#[derive(Clone, Debug)]
enum Lim {
    N(usize),
    T(u64),
    And(Box<Lim>, Box<Lim>),
    Or(Box<Lim>, Box<Lim>),
}
impl Lim {
    fn to_rt(&self) -> RuntimeLimit {
        match self {
            Lim::N(n) => RuntimeLimit::EventCount(*n),
            Lim::T(t) => RuntimeLimit::SimTime(SimTime::from_duration(Duration::from_nanos(*t))),
            Lim::And(a, b) => RuntimeLimit::CombinedAnd(Box::new(a.to_rt()), Box::new(b.to_rt())),
            Lim::Or(a, b) => RuntimeLimit::CombinedOr(Box::new(a.to_rt()), Box::new(b.to_rt())),
        }
    }
    fn applies(&self, k: usize, t: u128) -> bool {
        match self {
            Lim::N(n) => k > *n,
            Lim::T(tt) => t > *tt as u128,
            Lim::And(a, b) => a.applies(k, t) && b.applies(k, t),
            Lim::Or(a, b) => a.applies(k, t) || b.applies(k, t),
        }
    }
}

fn main() {
    let which = std::env::args().nth(1).unwrap();
    let maxm: usize = std::env::args().nth(2).map(|s| s.parse().unwrap()).unwrap_or(4);
    let cfgs: [(usize, u64); 4] = [(1, 1), (2, 3), (3, 2), (4, 5)];
    let (mut runs, mut bad, mut probes, mut probe_bad) = (0u64, 0u64, 0u64, 0u64);
    let mut shown = 0;
    for &(n, t) in &cfgs {
        let y = n as u64 * t;
        let mut deltas = vec![0, 1, t.saturating_sub(1), t, t + 1, y, y + 1];
        deltas.sort();
        deltas.dedup();
        let nd = deltas.len();
        let starts: Vec<u64> = if which == "order" { vec![0, 5, y + 1] } else { vec![0] };
        for &start in &starts {
            for m in 1..=maxm {
                let mut idx = vec![0usize; m];
                loop {
                    let mut prog: Vec<Vec<(u32, u64)>> = vec![vec![]; m];
                    let mut roots = vec![];
                    for i in 0..m {
                        let c = idx[i];
                        let par = c / nd;
                        let d = deltas[c % nd];
                        if par == 0 {
                            roots.push((i as u32, d));
                        } else {
                            prog[par - 1].push((i as u32, d));
                        }
                    }
                    let exp = reference(start, &roots, &prog);
                    let progr = Arc::new(prog.clone());
                    let build = |lim: Option<&Lim>, probe: Option<(u32, u64)>| {
                        let log: Log = Default::default();
                        let pr: Arc<Mutex<Option<bool>>> = Default::default();
                        let mut b = Builder::seeded(1).quiet().cqueue_options(n, Duration::from_nanos(t)).start_time(SimTime::from_duration(Duration::from_nanos(start)));
                        if let Some(l) = lim {
                            b = b.limit(l.to_rt());
                        }
                        let mut rt = b.build(App { log: log.clone(), prog: progr.clone(), probe, probe_result: pr.clone() });
                        for &(id, tt) in &roots {
                            rt.add_event(Ev(id), SimTime::from_duration(Duration::from_nanos(start + tt)));
                        }
                        (rt, log, pr)
                    };
                    if which == "order" {
                        // plain run
                        let (rt, log, _) = build(None, None);
                        let r = rt.run().unwrap();
                        runs += 1;
                        let got = log.lock().unwrap().clone();
                        if got != exp || r.1.as_nanos() != exp.last().unwrap().1 {
                            bad += 1;
                            if shown < 5 {
                                shown += 1;
                                println!("ORDER MISMATCH cfg=({n},{t}) start={start} roots={roots:?} prog={prog:?}\n got={got:?}\n exp={exp:?}");
                            }
                        }
                        // past probes: before run and inside each handler
                        for back in [1u64, t, start.max(1)] {
                            if start >= back {
                                let (mut rt, _log, _) = build(None, None);
                                let tpast = SimTime::from_duration(Duration::from_nanos(start - back));
                                let r = catch_unwind(AssertUnwindSafe(|| rt.add_event(Ev(998), tpast)));
                                probes += 1;
                                if r.is_ok() {
                                    probe_bad += 1;
                                    if shown < 8 {
                                        shown += 1;
                                        println!("PAST ACCEPTED before run: start={start} back={back} cfg=({n},{t})");
                                    }
                                }
                                drop(rt);
                            }
                            for at in 0..m as u32 {
                                let (rt, log, pr) = build(None, Some((at, back)));
                                let r = catch_unwind(AssertUnwindSafe(|| rt.run()));
                                let res = *pr.lock().unwrap();
                                if let Some(rejected) = res {
                                    probes += 1;
                                    let got = log.lock().unwrap().clone();
                                    let ran_probe = got.iter().any(|e| e.0 == 999);
                                    let monotone = got.windows(2).all(|w| w[0].1 <= w[1].1);
                                    if !rejected || ran_probe || !monotone || r.is_err() {
                                        probe_bad += 1;
                                        if shown < 8 {
                                            shown += 1;
                                            println!("PAST PROBE FAIL rejected={rejected} ran={ran_probe} monotone={monotone} start={start} at={at} back={back} roots={roots:?} prog={prog:?} got={got:?}");
                                        }
                                    }
                                }
                            }
                        }
                    } else {
                        let mut ts: Vec<u64> = exp.iter().map(|e| e.1 as u64).collect();
                        ts.sort();
                        ts.dedup();
                        let mut tcand = vec![];
                        for &x in &ts {
                            if x > 0 {
                                tcand.push(x - 1);
                            }
                            tcand.push(x);
                            tcand.push(x + 1);
                        }
                        tcand.sort();
                        tcand.dedup();
                        let mut lims: Vec<Lim> = (0..=m + 1).map(Lim::N).collect();
                        lims.extend(tcand.iter().map(|&x| Lim::T(x)));
                        for a in 0..=m + 1 {
                            for &x in &tcand {
                                lims.push(Lim::And(Box::new(Lim::N(a)), Box::new(Lim::T(x))));
                                lims.push(Lim::Or(Box::new(Lim::T(x)), Box::new(Lim::N(a))));
                            }
                        }
                        for lim in &lims {
                            let (rt, log, _) = build(Some(lim), None);
                            let (_, end, prof) = rt.run().unwrap();
                            runs += 1;
                            let got = log.lock().unwrap().clone();
                            let mut k = 0;
                            while k < exp.len() && !lim.applies(k + 1, exp[k].1) {
                                k += 1;
                            }
                            let exp_end = if k == 0 { start as u128 } else { exp[k - 1].1 };
                            let mut sched: Vec<(u32, u128)> = roots.iter().map(|&(i, t)| (i, (start + t) as u128)).collect();
                            for &(id, tt) in &exp[..k] {
                                for &(c, d) in &prog[id as usize] {
                                    sched.push((c, tt + d as u128));
                                }
                            }
                            let mut rem_exp: Vec<(u32, u128)> = sched.into_iter().filter(|e| !exp[..k].contains(e)).collect();
                            rem_exp.sort();
                            let mut rem_got: Vec<(u32, u128)> = prof.remaining.iter().map(|(e, t)| (e.0, t.as_nanos())).collect();
                            rem_got.sort();
                            if got[..] != exp[..k] || end.as_nanos() != exp_end || prof.event_count != k || rem_got != rem_exp {
                                bad += 1;
                                if shown < 5 {
                                    shown += 1;
                                    println!("LIMIT MISMATCH cfg=({n},{t}) lim={lim:?} roots={roots:?} prog={prog:?}\n got={got:?} end={end:?} rem={rem_got:?}\n exp={:?} end={exp_end} rem={rem_exp:?}", &exp[..k]);
                                }
                            }
                        }
                    }
                    let mut i = 0;
                    loop {
                        if i == m {
                            break;
                        }
                        idx[i] += 1;
                        if idx[i] < (i + 1) * nd {
                            break;
                        }
                        idx[i] = 0;
                        i += 1;
                    }
                    if i == m {
                        break;
                    }
                }
            }
        }
    }
    println!("{which}: runs={runs} bad={bad} past-probes={probes} past-probe-failures={probe_bad}");
}
